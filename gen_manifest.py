#!/usr/bin/env python3
"""Regenerates MANIFEST.json from the table below (kept in one place so it stays valid)."""
import json, os, subprocess
V = os.path.dirname(os.path.abspath(__file__))
hooks_commits = subprocess.run(["git", "-C", "/repo", "log", "--format=%h", "--grep=^verif hook"],
                               capture_output=True, text=True).stdout.strip().splitlines()
TECH = "bounded model checking of the compiled Rust code (Kani 0.68 -> CBMC 6.11 -> CaDiCaL), symbolic inputs/events, native replay of counterexamples"
NOTE_W = ("Trusted base: mock Socket + streaming oracle in /verif/kani/worker_h.rs, model file system and virtual clock "
          "(src/verif.rs, feature verif), stubs fmt::format/thread::sleep, Window::remove replaced by a pop_front model "
          "whose equivalence is checked by C18's c18_remove_equiv harnesses; Kani dev-profile semantics. Bounds: see evidence.")
CHECKS = {
 "C01": ("5.1", "send_file executed symbolically from every injected pre-EOF state (W 1..3, blksize 2, any start block, any file bytes) with symbolic peer events; oracle: each DATA carries exactly its slice, never beyond the final block. Holds for all values inside the stated bounds, nothing outside.", NOTE_W),
 "C18": ("5.18", "real Window (real VecDeque/drain) against a fixed-array reference queue for concrete operation scripts with symbolic contents and remove amounts; plus equivalence of the pop_front model used elsewhere. Bounded: W<=4, chunk<=3, file<=8 bytes.", "Trusted base: model file (src/verif.rs), reference queue in /verif/kani/window_h.rs; Kani dev-profile semantics."),
}
NA = {
 "C03": "std Path component iteration / join / str::contains on 2-3 symbolic bytes did not leave symbolic execution in 16 min at 10 GB, and even five fully concrete request names did not finish in 500 s each (probed twice); effect side needs sockets and the real fs",
 "C05": "listener loop is blocking FFI (recv_from), fatal paths are allocator aborts and thread spawning; not encodable in Kani (no FFI, malloc never fails, no threads)",
 "C06": "decision table inside listen/handle_*: attempted with a Server around UdpSocket::from_raw_fd and all std networking calls stubbed, but kani-compiler 0.68 ICEs (intrinsics.rs:243, catch_unwind) as soon as handle_wrq/handle_rrq is reachable because they drop the JoinHandle returned by Worker::receive/send; the handlers cannot be encoded with the installed tool",
 "C12": "thread scheduling, mpsc channels and kernel demultiplexing by connect(): Kani does not model concurrency",
 "C14": "two real processes exchanging datagrams over loopback; Client::upload/download is bind/send/recv on real sockets",
}
PENDING = {}
for pid in ["C02", "C04", "C07", "C08", "C09", "C10", "C11", "C13", "C15", "C16", "C17"]:
    if pid not in CHECKS and os.path.exists(os.path.join(V, "props", pid.lower() + ".py")):
        pass
m = {
 "version": 1,
 "setup_cmd": "true",
 "hooks": {
  "guard": "cargo feature `verif` (off by default)",
  "enable": "checks copy /repo's working tree to /verif/work/<check>/crate and run `cargo kani --lib --features verif ...` there",
  "baseline_off_cmd": "cd /repo && cargo test --workspace --no-fail-fast --offline",
  "source_commits": hooks_commits,
  "add_only": False,
 },
 "engines": [{"name": "kani-cbmc", "path": "/verif/lib/driver.py", "serves_properties": sorted(CHECKS),
              "kind_free_text": "Kani 0.68.0 / CBMC 6.11.0 / CaDiCaL bounded model checker over the compiled crate; driver regenerates harness instances and the encoding from /repo on every run"}],
 "checks": [],
 "not_applicable": [],
 "notes": "See DESIGN.md. Exit 0 held / 1 violation after native replay / 2 inconclusive. hooks.add_only is false: three import lines, one cfg(test) attribute and the sleep call in send_packet (H4) are wrapped in cfg pairs (DESIGN 4.2).",
}
EXTRA = json.load(open(os.path.join(V, "manifest_checks.json"))) if os.path.exists(os.path.join(V, "manifest_checks.json")) else {}
for pid, (ref, text, note) in sorted({**CHECKS, **{k: tuple(v) for k, v in EXTRA.items()}}.items()):
    m["checks"].append({
        "property_id": pid,
        "quick_cmd": "./check %s --tier quick" % pid,
        "thorough_cmd": "./check %s --tier thorough" % pid,
        "evidence_file": "/verif/evidence/%s.json" % pid,
        "replay_cmd_template": "./check %s --replay {path}" % pid,
        "engine": "kani-cbmc",
        "level_claimed": {"category": "model_checking", "text": text, "design_ref": ref},
        "level_note": note,
        "technique": TECH,
    })
claimed = set(c["property_id"] for c in m["checks"])
m["engines"][0]["serves_properties"] = sorted(claimed)
for pid, why in sorted(NA.items()):
    m["not_applicable"].append({"property_id": pid, "reason": why})
for pid in ["C%02d" % i for i in range(1, 19)]:
    if pid not in claimed and pid not in NA:
        m["not_applicable"].append({"property_id": pid, "reason": "check not registered yet (under construction in this session); see DESIGN.md section 5"})
json.dump(m, open(os.path.join(V, "MANIFEST.json"), "w"), indent=1)
print("claimed:", sorted(claimed))
