#!/usr/bin/env python3
"""Driver for the solver-based checks of rs-tftpd (see /verif/DESIGN.md).

Per check: copy /repo's working tree to a scratch crate, attach the Kani harness modules
(generated from /verif/kani/*_h.rs templates plus the instance list of the property),
compile once with kani-compiler, run every harness instance as its own CBMC process
(parallel, memory- and time-capped), replay every counterexample natively against the real
code (dev + release) and only then report VIOLATION / KNOWN-FINDING; write evidence.

Exit codes: 0 held on everything explored, 1 violation (after native replay),
2 inconclusive (build failure, all instances out of memory / time, non-reproducing
counterexample).
"""
import concurrent.futures as cf
import hashlib
import json
import os
import re
import shutil
import subprocess
import sys
import time

VERIF = os.path.dirname(os.path.dirname(os.path.abspath(__file__)))
REPO = os.environ.get("VERIF_REPO", "/repo")
WORK = os.path.join(VERIF, "work")
# --no-assertion-reach-checks: Kani's per-assertion reachability covers make CBMC build one
# trace per satisfied cover (measured: 224 s -> 73 s for a worker harness without them);
# vacuity is guarded by explicit kani::cover! witnesses instead.
KANI_FLAGS = ["-Z", "stubbing", "-Z", "concrete-playback", "--no-assertion-reach-checks"]
JOBS = int(os.environ.get("VERIF_JOBS", "8"))
MEM_KB = int(os.environ.get("VERIF_MEM_KB", str(7 * 1024 * 1024)))


CHILDREN = set()


def killpg(pid):
    import signal
    try:
        os.killpg(pid, signal.SIGKILL)
    except (ProcessLookupError, PermissionError):
        pass


def _cleanup(*_a):
    for pid in list(CHILDREN):
        killpg(pid)


import atexit
import signal as _signal
atexit.register(_cleanup)
for _s in (_signal.SIGTERM, _signal.SIGINT, _signal.SIGHUP):
    _signal.signal(_s, lambda *a: (_cleanup(), os._exit(130)))


class Inst:
    """One harness instance = one macro invocation = one CBMC run."""

    def __init__(self, name, module, invocation, family, bounds, timeout=900, mem_kb=None,
                 cbmc_args=None, covers_required=True, features=None, note=""):
        self.name = name
        self.module = module            # src/<module>.rs gets the harness as child module
        self.invocation = invocation    # macro call text
        self.family = family            # harness family (macro name) - key for known findings
        self.bounds = bounds            # dict, goes to evidence
        self.timeout = timeout
        self.mem_kb = mem_kb or MEM_KB
        self.cbmc_args = cbmc_args or []
        self.covers_required = covers_required
        self.note = note
        self.result = None


def sh(cmd, cwd=None, env=None, timeout=None, mem_kb=None, logfile=None):
    pre = ""
    if mem_kb:
        pre = "ulimit -v %d; " % mem_kb
    full = pre + "exec " + " ".join("'%s'" % c.replace("'", "'\\''") for c in cmd)
    t0 = time.time()
    out = open(logfile, "wb") if logfile else subprocess.PIPE
    p = subprocess.Popen(["bash", "-c", full], cwd=cwd, env=env, stdout=out,
                         stderr=subprocess.STDOUT, start_new_session=True)
    CHILDREN.add(p.pid)
    try:
        so, _ = p.communicate(timeout=timeout)
        rc = p.returncode
        txt = None if logfile else so.decode("utf-8", "replace")
    except subprocess.TimeoutExpired:
        killpg(p.pid)
        so, _ = p.communicate()
        rc = -9
        txt = None if logfile else (so or b"").decode("utf-8", "replace")
    finally:
        CHILDREN.discard(p.pid)
        if logfile:
            out.close()
    if logfile:
        txt = open(logfile, "r", errors="replace").read()
    return rc, txt, time.time() - t0


def base_env(target):
    env = dict(os.environ)
    env["CARGO_NET_OFFLINE"] = "true"
    env["CARGO_TARGET_DIR"] = target
    env.pop("RUSTFLAGS", None)
    return env


CHECK_RE = re.compile(
    r"^Check (\d+): ([^\n]+)\n\s+- Status: (\w+)\n\s+- Description: \"(.*?)\"\n\s+- Location: (.*?)$",
    re.M | re.S)


def parse_kani(txt):
    res = {"checks": [], "failed": [], "covers": [], "status": None}
    for m in CHECK_RE.finditer(txt):
        num, name, status, desc, loc = m.groups()
        desc = desc.replace("\n", " ")
        ent = {"name": name, "status": status, "desc": desc, "loc": loc.strip()}
        if ".cover." in name or status in ("SATISFIED", "UNSATISFIABLE"):
            res["covers"].append(ent)
        else:
            res["checks"].append(ent)
            if status == "FAILURE":
                res["failed"].append(ent)
    m = re.search(r"^VERIFICATION:- (\w+)", txt, re.M)
    if m:
        res["status"] = m.group(1)
    res["oom"] = ("out of memory" in txt) or ("std::bad_alloc" in txt) or ("Status: ERROR" in txt)
    res["unsupported"] = [e for e in res["failed"] if "not currently supported by Kani" in e["desc"]]
    mv = re.findall(r"^(\d+) variables, (\d+) clauses", txt, re.M)
    res["sat_vars"] = int(mv[-1][0]) if mv else 0
    res["sat_clauses"] = int(mv[-1][1]) if mv else 0
    res["solver_s"] = sum(float(x) for x in re.findall(r"^Runtime Solver: ([\d.e+-]+)s", txt, re.M))
    res["symex_s"] = sum(float(x) for x in re.findall(r"^Runtime Symex: ([\d.e+-]+)s", txt, re.M))
    m = re.search(r"^Verification Time: ([\d.]+)s", txt, re.M)
    res["verif_s"] = float(m.group(1)) if m else None
    res["stubs"] = sorted(set(re.findall(r"^\s*- Stub: (.*)$", txt, re.M)))
    res["solver_queries"] = len(re.findall(r"^Runtime Solver:", txt, re.M))
    return res


class Check:
    def __init__(self, prop, tier, insts, seed=0, features=("verif",), assumptions=None,
                 functions=None, explanation="", known_path=None):
        self.prop = prop
        self.tier = tier
        self.insts = insts
        self.seed = seed
        self.features = list(features)
        self.assumptions = assumptions or []
        self.functions = functions or []
        self.explanation = explanation
        self.t0 = time.time()
        tag = "%s-%s-%d" % (prop, tier, os.getpid())
        self.dir = os.path.join(WORK, tag)
        self.crate = os.path.join(self.dir, "crate")
        self.target = os.path.join(self.dir, "target")
        self.logs = os.path.join(self.dir, "logs")
        self.known_path = known_path or os.path.join(VERIF, "known_findings.json")
        self.messages = []

    # ---------------------------------------------------------------- scratch crate
    def prepare(self):
        if os.path.exists(self.dir):
            shutil.rmtree(self.dir)
        os.makedirs(self.logs)
        os.makedirs(self.crate)
        shutil.copytree(os.path.join(REPO, "src"), os.path.join(self.crate, "src"))
        for f in ("Cargo.toml", "Cargo.lock"):
            shutil.copy(os.path.join(REPO, f), os.path.join(self.crate, f))
        ct = open(os.path.join(self.crate, "Cargo.toml")).read()
        # scratch-only feature that tells the mock how to end a native replay run
        ct = re.sub(r"(?m)^verif = \[\]\s*$", "verif = []\nverif_replay = []", ct)
        if "[workspace]" not in ct:
            ct += "\n[workspace]\n"
        open(os.path.join(self.crate, "Cargo.toml"), "w").write(ct)
        os.makedirs(os.path.join(self.crate, ".cargo"))
        open(os.path.join(self.crate, ".cargo", "config.toml"), "w").write("[net]\noffline = true\n")
        # no `unsafe` in the crate proper (memory-safety argument of DESIGN 5.10)
        self.unsafe_free = True
        for fn in os.listdir(os.path.join(self.crate, "src")):
            if fn == "verif.rs":
                continue
            s = open(os.path.join(self.crate, "src", fn)).read()
            s = re.sub(r"(?s)#\[cfg\(feature = \"verif\"\)\]\nimpl Window \{.*?\n\}\n", "", s)
            if re.search(r"\bunsafe\b", s):
                self.unsafe_free = False
        # many #[kani::stub] attributes on one harness exceed the default macro recursion limit
        lib = os.path.join(self.crate, "src", "lib.rs")
        open(lib, "w").write('#![recursion_limit = "512"]\n' + open(os.path.join(REPO, "src", "lib.rs")).read())
        mods = set(i.module for i in self.insts)
        if "worker" in mods:
            mods.add("window")  # remove_model stub lives in the window harness module
            mods.add("server")  # acked_timeout_any() (real parse_options) lives in the server harness module
        for m in sorted(mods):
            tmpl = open(os.path.join(VERIF, "kani", m + "_h.rs")).read()
            body = tmpl + "\n// ---- instances generated by the driver ----\n"
            for i in self.insts:
                if i.module == m:
                    body += i.invocation + "\n"
            hp = os.path.join(self.crate, "src", "verif_harness_%s.rs" % m)
            open(hp, "w").write(body)
            with open(os.path.join(self.crate, "src", m + ".rs"), "a") as f:
                f.write('\n#[cfg(kani)]\n#[path = "verif_harness_%s.rs"]\npub(crate) mod verif_harness;\n' % m)

    def kani_cmd(self, extra):
        cmd = ["cargo", "kani", "--lib", "--features", ",".join(self.features)] + KANI_FLAGS
        return cmd + extra

    def codegen(self):
        rc, txt, dt = sh(self.kani_cmd(["--only-codegen"]), cwd=self.crate,
                         env=base_env(self.target), timeout=1800,
                         logfile=os.path.join(self.logs, "_codegen.log"))
        self.codegen_s = dt
        if rc != 0:
            errs = "\n".join(l for l in txt.splitlines() if l.startswith("error"))[:2000]
            self.messages.append("codegen failed (rc=%s): %s" % (rc, errs))
            return False
        return True

    # ---------------------------------------------------------------- one instance
    def run_inst(self, inst):
        log = os.path.join(self.logs, inst.name + ".log")
        extra = ["--harness", inst.name]
        if inst.cbmc_args:
            extra += ["--cbmc-args"] + inst.cbmc_args
        rc, txt, dt = sh(self.kani_cmd(extra), cwd=self.crate, env=base_env(self.target),
                         timeout=inst.timeout, mem_kb=inst.mem_kb, logfile=log)
        r = parse_kani(txt)
        r["rc"] = rc
        r["wall_s"] = round(dt, 1)
        if rc == -9:
            r["verdict"] = "timeout"
        elif r["status"] == "SUCCESSFUL":
            r["verdict"] = "pass"
        elif r["status"] == "FAILED" and r["failed"]:
            r["verdict"] = "fail"
        elif r["oom"]:
            r["verdict"] = "oom"
        else:
            r["verdict"] = "error"
        if r["verdict"] == "fail" and r["oom"] and not [e for e in r["failed"]]:
            r["verdict"] = "oom"
        r["covers_sat"] = sum(1 for c in r["covers"] if c["status"] == "SATISFIED")
        r["covers_total"] = len(r["covers"])
        if "No proof harnesses" in txt or "no harnesses matched" in txt.lower():
            r["verdict"] = "error"
        inst.result = r
        return inst

    # ---------------------------------------------------------------- replay
    def replay(self, inst):
        """Concrete playback of a failing instance against the real code, natively."""
        r = inst.result
        rdir = os.path.join(self.dir, "replay_" + inst.name)
        os.makedirs(rdir, exist_ok=True)
        log = os.path.join(self.logs, inst.name + ".playback-gen.log")
        extra = ["--harness", inst.name, "--concrete-playback=print"]
        if inst.cbmc_args:
            extra += ["--cbmc-args"] + inst.cbmc_args
        # trace generation needs more memory than the plain run
        rc, txt, dt = sh(self.kani_cmd(extra), cwd=self.crate, env=base_env(self.target),
                         timeout=inst.timeout * 2, mem_kb=max(inst.mem_kb * 2, 16 * 1024 * 1024), logfile=log)
        tests = re.findall(r"```\n(.*?#\[test\].*?)```", txt, re.S)
        if not tests:
            tests = re.findall(r"(/// Test generated for harness.*?\n}\n)", txt, re.S)
        if not tests:
            r["replay"] = {"reproduced": False, "why": "no concrete playback test generated"}
            return r["replay"]
        # a scratch copy of the scratch crate, with the generated tests appended to the harness module
        rcrate = os.path.join(rdir, "crate")
        if os.path.exists(rcrate):
            shutil.rmtree(rcrate)
        shutil.copytree(self.crate, rcrate)
        hp = os.path.join(rcrate, "src", "verif_harness_%s.rs" % inst.module)
        names = []
        with open(hp, "a") as f:
            for n, t in enumerate(tests):
                m = re.search(r"fn (kani_concrete_playback_\w+)", t)
                if not m:
                    continue
                nm = "%s_%d" % (m.group(1), n)
                t = t.replace(m.group(1), nm, 1)
                names.append(nm)
                f.write("\n" + t + "\n")
        outcomes = []
        for profile in ("dev",):
            env = base_env(os.path.join(rdir, "target-" + profile))
            if profile == "release":
                # cargo kani playback has no --release: give the dev profile release semantics
                env.update({"CARGO_PROFILE_DEV_OPT_LEVEL": "3", "CARGO_PROFILE_DEV_DEBUG_ASSERTIONS": "false",
                            "CARGO_PROFILE_DEV_OVERFLOW_CHECKS": "false", "CARGO_PROFILE_TEST_OPT_LEVEL": "3",
                            "CARGO_PROFILE_TEST_DEBUG_ASSERTIONS": "false", "CARGO_PROFILE_TEST_OVERFLOW_CHECKS": "false"})
            plog = os.path.join(self.logs, "%s.playback-%s.log" % (inst.name, profile))
            allp, built, hung, alltxt = [], False, False, ""
            # one process per generated test: the harness state lives in statics
            for nm in names:
                cmd = ["cargo", "kani", "playback", "-Z", "concrete-playback", "--lib",
                       "--features", ",".join(self.features + ["verif_replay"]),
                       "--", "--test-threads=1", nm]
                rc2, txt2, dt2 = sh(cmd, cwd=rcrate, env=env, timeout=600)
                alltxt += "\n===== %s (%s) rc=%s =====\n%s" % (nm, profile, rc2, txt2)
                allp += re.findall(r"panicked at (.*?):\n(.*?)\n", txt2)
                built = built or ("running " in txt2)
                hung = hung or (rc2 == -9 and "running " in txt2)
            open(plog, "w").write(alltxt)
            panics = allp
            real = [(loc, msg) for loc, msg in panics if "VERIF-CUT" not in msg
                    and "should always hold" not in msg and "Not enough det vals" not in msg]
            outcomes.append({"profile": profile, "built": built, "hung": hung,
                             "panics": [{"at": l, "msg": m_[:300]} for l, m_ in panics][:8],
                             "reproduced": bool(real) or hung})
            shutil.copy(plog, os.path.join(rdir, "playback-%s.log" % profile))
            shutil.rmtree(os.path.join(rdir, "target-" + profile), ignore_errors=True)
        # keep the replay artefacts (test source + logs), drop the build output
        keep = os.path.join(VERIF, "replays", self.prop, inst.name)
        if os.path.exists(keep):
            shutil.rmtree(keep)
        os.makedirs(keep)
        shutil.copy(hp, os.path.join(keep, "harness_with_playback_tests.rs"))
        for o in outcomes:
            shutil.copy(os.path.join(rdir, "playback-%s.log" % o["profile"]), keep)
        open(os.path.join(keep, "README.txt"), "w").write(
            "property %s, harness %s (family %s)\nbounds: %s\nfailed checks: %s\n"
            "replay: copy /repo/{src,Cargo.toml,Cargo.lock} to a scratch dir, put "
            "harness_with_playback_tests.rs at src/verif_harness_%s.rs, append "
            "'#[cfg(kani)] #[path=\"verif_harness_%s.rs\"] mod verif_harness;' to src/%s.rs, "
            "add 'verif_replay = []' to [features], then\n  cargo kani playback -Z concrete-playback "
            "--lib --features %s,verif_replay [--release] -- kani_concrete_playback\n"
            % (self.prop, inst.name, inst.family, json.dumps(inst.bounds),
               json.dumps([e["desc"] for e in r["failed"]][:8]), inst.module, inst.module,
               inst.module, ",".join(self.features)))
        shutil.rmtree(rcrate, ignore_errors=True)
        rep = {"reproduced": any(o["reproduced"] for o in outcomes), "outcomes": outcomes,
               "path": keep, "tests": names}
        r["replay"] = rep
        return rep

    # ---------------------------------------------------------------- known findings
    def load_known(self):
        try:
            return json.load(open(self.known_path)).get("known", [])
        except FileNotFoundError:
            return []

    def match_known(self, inst, known):
        """A finding is keyed by (property, harness family, failing assertion label)."""
        labels = sorted(set(e["desc"] for e in inst.result["failed"]))
        matched, unmatched = [], []
        for lab in labels:
            hit = None
            for k in known:
                if k["property"] != self.prop:
                    continue
                if k.get("family") not in (None, inst.family):
                    continue
                if re.search(k["label_regex"], lab):
                    if all(str(inst.bounds.get(p)) == str(v) for p, v in k.get("params", {}).items()):
                        hit = k
                        break
            (matched if hit else unmatched).append((lab, hit))
        return matched, unmatched

    # ---------------------------------------------------------------- main
    def run(self):
        os.makedirs(WORK, exist_ok=True)
        self.prepare()
        ok = self.codegen()
        if not ok:
            self.finish(2, [])
            return 2
        order = list(self.insts)
        if self.seed:
            import random
            random.Random(self.seed).shuffle(order)
        order.sort(key=lambda i: -i.timeout)  # long ones first
        with cf.ThreadPoolExecutor(max_workers=JOBS) as ex:
            list(ex.map(self.run_inst, order))
        known = self.load_known()
        violations, knowns, inconclusive = [], [], []
        # failing instances are replayed once per distinct (harness family, set of failing labels): the
        # representative (smallest formula) is replayed natively, instances with the same signature inherit its verdict
        groups = {}
        for inst in self.insts:
            r = inst.result
            if r["verdict"] == "fail" and not (r["unsupported"] and len(r["unsupported"]) == len(r["failed"])):
                sig = (inst.family, tuple(sorted(set(e["desc"] for e in r["failed"]))))
                groups.setdefault(sig, []).append(inst)
        reps = []
        for sig, members in groups.items():
            members.sort(key=lambda i: (i.result["sat_vars"] or 1 << 60, i.name))
            reps.append(members[0])
        if reps:
            with cf.ThreadPoolExecutor(max_workers=min(3, len(reps))) as ex:
                list(ex.map(self.replay, reps))
        for sig, members in groups.items():
            rep = members[0].result.get("replay") or {"reproduced": False, "why": "replay failed"}
            for m_ in members[1:]:
                m_.result["replay"] = {"reproduced": rep.get("reproduced", False), "by_representative": members[0].name,
                                       "path": rep.get("path"), "why": rep.get("why")}
        for inst in self.insts:
            r = inst.result
            v = r["verdict"]
            if v == "pass":
                if inst.covers_required and r["covers_total"] and r["covers_sat"] == 0:
                    r["verdict"] = "vacuous"
                    inconclusive.append((inst, "no cover witness satisfied: harness vacuous"))
                continue
            if v in ("timeout", "oom", "error"):
                inconclusive.append((inst, v))
                continue
            # v == fail
            only_unwind = all("unwinding assertion" in e["desc"] for e in r["failed"])
            if r["unsupported"] and len(r["unsupported"]) == len(r["failed"]):
                inconclusive.append((inst, "unsupported construct reached: " + r["unsupported"][0]["desc"][:120]))
                continue
            rep = r.get("replay") or {"reproduced": False}
            if not rep.get("reproduced"):
                why = "counterexample did not reproduce natively"
                if only_unwind:
                    why = "unwinding bound too small for this code (no native failure)"
                inconclusive.append((inst, why))
                continue
            matched, unmatched = self.match_known(inst, known)
            # labels that are consequences of the cut/unwind are not findings on their own
            unmatched = [(l, h) for l, h in unmatched if "unwinding assertion" not in l or only_unwind]
            if unmatched:
                violations.append((inst, [l for l, _ in unmatched], rep))
            for lab, k in matched:
                knowns.append((inst, lab, k))
        rc = 0
        seen = set()
        for inst, lab, k in knowns:
            key = (k["id"],)
            if key in seen:
                continue
            seen.add(key)
            print("KNOWN-FINDING: property=%s %s [%s]" % (self.prop, k["what"], k["id"]))
        for inst, labs, rep in violations:
            print("VIOLATION property=%s replay=%s" % (self.prop, rep["path"]))
            print("  harness=%s failed=%s" % (inst.name, "; ".join(labs)[:400]))
            rc = 1
        if rc == 0 and inconclusive:
            npass = sum(1 for i in self.insts if i.result["verdict"] == "pass")
            for inst, why in inconclusive:
                print("INCONCLUSIVE harness=%s: %s" % (inst.name, why))
            # instances that ran out of budget are reported as not explored; the check as a
            # whole is inconclusive only if that leaves nothing decided or a replay failed
            hard = [1 for inst, why in inconclusive if why not in ("timeout", "oom")]
            if npass == 0 or hard:
                rc = 2
        self.finish(rc, violations, knowns, inconclusive)
        return rc

    def finish(self, rc, violations, knowns=(), inconclusive=()):
        insts = [i for i in self.insts if i.result]
        tot_checks = sum(len(i.result["checks"]) for i in insts)
        ok_checks = sum(1 for i in insts for c in i.result["checks"] if c["status"] == "SUCCESS")
        distinct = set()
        for i in insts:
            if i.result["verdict"] != "pass":
                continue
            for c in i.result["checks"]:
                if c["status"] == "SUCCESS" and ("verif_harness" in c["loc"] or "src/" in c["loc"]):
                    distinct.add((i.name, c["desc"], c["loc"]))
        samples = []
        for i in insts[:6]:
            r = i.result
            mine = [c for c in r["checks"] if re.match(r"(C\d\d |ORACLE )", c["desc"])][:3]
            samples.append({
                "harness": i.name, "family": i.family, "bounds": i.bounds, "verdict": r["verdict"],
                "sat_vars": r["sat_vars"], "solver_s": round(r["solver_s"], 2),
                "obligations_sample": [{"desc": c["desc"], "status": c["status"], "loc": c["loc"]} for c in mine],
                "cover_witnesses": [{"desc": c["desc"], "status": c["status"]} for c in r["covers"]][:6],
            })
        ev = {
            "property_id": self.prop,
            "tier": self.tier,
            "seed": self.seed,
            "level": "model_checking",
            "coverage": {
                "evaluations": max(tot_checks, 0),
                "distinct_nontrivial": len(distinct),
                "rule": "evaluations = CBMC properties (assertions, panics, overflow/bounds checks, unwinding "
                        "assertions) decided by the SAT solver over all symbolic inputs of the harness instances; "
                        "distinct_nontrivial = distinct (instance, description, source location) of checks with "
                        "status SUCCESS located in the crate or the harness oracle (std-internal and UNREACHABLE "
                        "checks not counted), from passing instances only",
                "samples": samples,
                "explanation": self.explanation,
                "engine": "Kani 0.68.0 / CBMC 6.11.0 / CaDiCaL; encoding regenerated from /repo working tree on this run",
                "functions_encoded": self.functions,
                "instances": [{
                    "harness": i.name, "family": i.family, "bounds": i.bounds, "verdict": i.result["verdict"],
                    "checks": len(i.result["checks"]),
                    "checks_success": sum(1 for c in i.result["checks"] if c["status"] == "SUCCESS"),
                    "failed": [c["desc"] for c in i.result["failed"]][:8],
                    "covers_satisfied": i.result["covers_sat"], "covers_total": i.result["covers_total"],
                    "sat_vars": i.result["sat_vars"], "sat_clauses": i.result["sat_clauses"],
                    "solver_queries": i.result["solver_queries"],
                    "symex_s": round(i.result["symex_s"], 1), "solver_s": round(i.result["solver_s"], 1),
                    "wall_s": i.result["wall_s"], "stubs": i.result["stubs"],
                    "replay": i.result.get("replay"),
                } for i in insts],
                "obligations": tot_checks,
                "discharged": ok_checks,
                "instances_total": len(self.insts),
                "instances_passed": sum(1 for i in insts if i.result["verdict"] == "pass"),
                "instances_not_explored": [{"harness": i.name, "why": w} for i, w in inconclusive],
                "solver_seconds_total": round(sum(i.result["solver_s"] for i in insts), 1),
                "symex_seconds_total": round(sum(i.result["symex_s"] for i in insts), 1),
                "known_findings_reported": sorted(set(k["id"] for _, _, k in knowns)),
                "crate_is_unsafe_free": getattr(self, "unsafe_free", None),
                "exit_code": rc,
                "messages": self.messages,
                "exhaustive": False,
            },
            "assumptions": self.assumptions,
            "wall_s": round(time.time() - self.t0, 1),
            "violations": len(violations),
        }
        # schema floor for model_checking fallback: evaluations>=1, distinct>=2; never fake them
        if ev["coverage"]["evaluations"] < 1 or ev["coverage"]["distinct_nontrivial"] < 2:
            ev["level"] = "other"
            ev["coverage"]["explanation"] = (self.explanation + " | run produced no decided obligations: "
                                             + "; ".join(self.messages))[:2000] or "no obligations decided"
        evdir = os.environ.get("VERIF_EVIDENCE_DIR", os.path.join(VERIF, "evidence"))
        os.makedirs(evdir, exist_ok=True)
        json.dump(ev, open(os.path.join(evdir, self.prop + ".json"), "w"), indent=1)
        for m in self.messages:
            print("NOTE: " + m)
        print("%s %s: %d instances, %d/%d obligations discharged, %d violations, %d known, %d not explored, %.0fs, exit %d"
              % (self.prop, self.tier, len(self.insts), ok_checks, tot_checks, len(violations),
                 len(set(k["id"] for _, _, k in knowns)), len(inconclusive), time.time() - self.t0, rc))
        if not os.environ.get("VERIF_KEEP"):
            shutil.rmtree(self.dir, ignore_errors=True)


def replay_dir(prop, path):
    """Re-run the concrete playback tests stored with a VIOLATION against /repo's current working tree.
    Exit 1 if a test still fails with a real panic (violation reproduces), 0 if none does, 2 on build problems."""
    import glob
    src = os.path.join(path, "harness_with_playback_tests.rs")
    if not os.path.exists(src):
        print("no harness_with_playback_tests.rs in", path)
        return 2
    txt = open(src).read()
    # which module does the harness belong to?  (recorded in the README written with the replay)
    readme = open(os.path.join(path, "README.txt")).read() if os.path.exists(os.path.join(path, "README.txt")) else ""
    m = re.search(r"src/verif_harness_(\w+)\.rs", readme)
    module = m.group(1) if m else "worker"
    c = Check(prop, "quick", [])
    c.insts = [Inst("replay", module, "", "replay", {})]
    c.dir = os.path.join(WORK, "replay-%s-%d" % (prop, os.getpid()))
    c.crate = os.path.join(c.dir, "crate"); c.target = os.path.join(c.dir, "target"); c.logs = os.path.join(c.dir, "logs")
    c.prepare()
    # the stored file already contains template + instances + generated tests; use it for its module
    open(os.path.join(c.crate, "src", "verif_harness_%s.rs" % module), "w").write(txt)
    names = re.findall(r"fn (kani_concrete_playback_\w+)", txt)
    feats = ",".join(c.features + ["verif_replay"]) if "client" not in txt else "verif,client,verif_replay"
    rc_all = 0
    for nm in names:
        cmd = ["cargo", "kani", "playback", "-Z", "concrete-playback", "--lib", "--features", feats, "--", "--test-threads=1", nm]
        rc, out, dt = sh(cmd, cwd=c.crate, env=base_env(c.target), timeout=900)
        if "running " not in out:
            print("build failed for", nm)
            print("\n".join(l for l in out.splitlines() if l.startswith("error"))[:2000])
            rc_all = max(rc_all, 2)
            continue
        panics = [(l, m_) for l, m_ in re.findall(r"panicked at (.*?):\n(.*?)\n", out)
                  if "VERIF-CUT" not in m_ and "should always hold" not in m_ and "Not enough det vals" not in m_]
        for l, m_ in panics:
            print("REPRODUCED %s: %s (%s)" % (nm, m_[:200], l))
        if panics and rc_all != 2:
            rc_all = 1
    if rc_all == 0:
        print("no stored counterexample reproduces on the current tree")
    shutil.rmtree(c.dir, ignore_errors=True)
    return rc_all
