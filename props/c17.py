import itertools
import random
from driver import Check, Inst

# table entry ids (see group() in kani/config_h.rs)
IP_OK, IP_LONG, IP6, IP_BAD = 0, 1, 2, 3
P_OK, P_LONG, P_BAD = 4, 5, 6
D_A, D_B, D_BAD = 7, 8, 9
RD_R, RD_R2, SD_S, SD_S2 = 10, 11, 12, 13
S, S_LONG, R, R_LONG, OVW, KEEP = 14, 15, 16, 17, 18, 19
DUP3, DUP255, DUP254 = 20, 21, 22
BAD_SHORT, BAD_LONG, STRAY, RD_BAD, SD_BAD = 23, 24, 25, 26, 27


TABLE = {0: ("-i", "0.0.0.0"), 1: ("--ip-address", "1.2.3.4"), 2: ("-i", "::1"), 3: ("-i", "1.2.3"), 4: ("-p", "1234"),
         5: ("--port", "7"), 6: ("-p", "70000"), 7: ("-d", "/a"), 8: ("--directory", "/b"), 9: ("-d", "nodir"),
         10: ("-rd", "/r"), 11: ("--receive-directory", "/r2"), 12: ("-sd", "/s"), 13: ("--send-directory", "/s2"),
         14: ("-s",), 15: ("--single-port",), 16: ("-r",), 17: ("--read-only",), 18: ("--overwrite",), 19: ("--keep-on-error",),
         20: ("--duplicate-packets", "3"), 21: ("--duplicate-packets", "255"), 22: ("--duplicate-packets", "254"),
         23: ("-x",), 24: ("--bogus",), 25: ("stray",), 26: ("-rd", "nodir"), 27: ("--send-directory", "rel/dir")}
MISSING = {1: "-i", 2: "--port", 3: "-d", 4: "-rd", 5: "--send-directory", 6: "--duplicate-packets"}


def vector(ids, missing=0, numslot=9, nd=0, unw=48):
    name = "c17_v_%s_m%d" % ("_".join(str(i) for i in ids) or "none", missing)
    if numslot < 9:
        name += "_n%dd%d" % (numslot, nd)
    args, numarg = [], 99
    for k, i in enumerate(ids):
        args.append(TABLE[i][0])
        if len(TABLE[i]) > 1:
            if k == numslot:
                numarg = len(args)
            args.append(TABLE[i][1])
    if missing:
        args.append(MISSING[missing])
    inv = "c17_vector!(%s, [%s], [%s], %d, %d, %d, %d, %d);" % (
        name, ",".join(str(i) for i in ids), ",".join(('numstr(%d)' % nd) if k == numarg else 'String::from("%s")' % a for k, a in enumerate(args)), numarg, missing, numslot, nd, unw)
    return Inst(name, "config", inv, "c17_vector",
                {"flag_groups(table ids, in order)": list(ids), "trailing_flag_without_value": missing,
                 "symbolic_number_at_group": None if numslot == 9 else numslot, "digits": nd, "unwind": unw}, timeout=600)


def digits(name, which, d, unw=24):
    return Inst(name, "config", "c17_digits!(%s, %d, %d, %d);" % (name, which, d, unw), "c17_digits",
                {"flag": "--duplicate-packets" if which == 0 else "-p", "digits": d, "digit_values": "symbolic 0..9 each"},
                timeout=600)


FUNCS = ["Config::new::<vec::IntoIter<String>>", "Config::default", "str::parse::<u8/u16/IpAddr> (real std)"]
ASSUME = ["flag spellings and their order are concrete per instance (a String chosen by a symbolic index or a symbolic permutation did not finish: measured > 400 s for two flags); "
          "the solver decides over the numeric values (ports, duplicate-packets) given as symbolic digit strings; orders/subsets are enumerated by the driver from a 28-entry flag-group table "
          "(all flags, long and short spellings, valid and invalid values, unknown flags, stray word, trailing flag without value) - VERIF_SEED varies the sampled permutations",
          "stubs: Path::exists -> true iff the path starts with '/', env::current_dir -> /cwd, fmt::format -> empty",
          "-h/--help excluded (process::exit)", "directory fields compared as raw bytes"]


def build(tier, seed):
    rnd = random.Random(seed or 1)
    I = []
    vs = []
    # defaults and every single group
    vs.append(((), 0, 9, 0))
    singles = list(range(28))
    if tier == "quick":
        singles = [IP_OK, IP6, IP_BAD, P_LONG, D_B, D_BAD, RD_R, SD_S2, S, R_LONG, OVW, KEEP, DUP254, DUP255, BAD_SHORT, STRAY, RD_BAD]
    for g in singles:
        vs.append(((g,), 0, 9, 0))
    for m in ((1, 4) if tier == "quick" else (1, 2, 3, 4, 5, 6)):
        vs.append(((S,), m, 9, 0))
    # last occurrence wins / fallback of -rd, -sd to -d, in every order
    multisets = [(D_A, RD_R), (D_A, SD_S), (D_A, D_B), (RD_R, RD_R2, D_B), (D_A, RD_R, SD_S), (IP_OK, IP_LONG), (P_OK, P_LONG),
                 (DUP3, DUP254), (KEEP, OVW, S), (D_A, BAD_LONG), (D_BAD, D_A)]
    if tier == "thorough":
        multisets += [(D_A, D_B, RD_R, SD_S), (IP6, P_OK, D_A, R), (RD_R, SD_S, RD_R2, SD_S2), (S, S_LONG, R), (DUP3, P_OK, IP_LONG, KEEP),
                      (D_A, RD_BAD), (SD_BAD, D_B), (IP_BAD, IP_OK), (P_BAD, P_OK), (DUP255, DUP3)]
    for ms in multisets:
        perms = sorted(set(itertools.permutations(ms)))
        if tier == "quick" and len(perms) > 2:
            perms = rnd.sample(perms, 2)
        for p in perms:
            vs.append((p, 0, 9, 0))
    # every ordered pair of the four switches, and each switch before/after a value flag: a flag must only touch its own setting
    sw = [S, R, OVW, KEEP]
    pairs = [(a, b) for a in sw for b in sw if a != b]
    pairs += [(a, b) for a in sw for b in (D_A, DUP3)] + [(b, a) for a in sw for b in (D_A, DUP3)]
    if tier == "thorough":
        pairs += [(a, b) for a in (S_LONG, R_LONG) for b in (OVW, KEEP, RD_R, SD_S, P_OK)] + [(b, a) for a in (S_LONG, R_LONG) for b in (OVW, KEEP, RD_R, SD_S, P_OK)]
    if tier == "quick":
        # every unordered pair of switches in one seeded order + each switch against a value flag, in one order
        keep = [(a, b) for i, a in enumerate(sw) for b in sw[i + 1:]]
        keep = [(a, b) if rnd.random() < 0.5 else (b, a) for a, b in keep]
        keep += [((a, D_A) if rnd.random() < 0.5 else (D_A, a)) for a in sw] + [((a, DUP3) if rnd.random() < 0.5 else (DUP3, a)) for a in sw]
        keep += [(OVW, R), (R, OVW)]
        pairs = keep
    for pr in pairs:
        vs.append((pr, 0, 9, 0))
    # symbolic numbers inside longer vectors
    vs += [((D_A, P_OK, RD_R), 0, 1, 4), ((P_OK, P_LONG), 0, 0, 5), ((DUP3, S), 0, 0, 3), ((S, DUP3), 0, 1, 3), ((DUP254, DUP3), 0, 1, 2)]
    if tier == "thorough":
        vs += [((P_LONG, D_A, P_OK), 0, 2, 5), ((IP_OK, DUP3, KEEP), 0, 1, 3), ((P_OK,), 3, 0, 4), ((DUP3, DUP254), 0, 0, 3)]
    seen = set()
    for ids, m, ns, nd in vs:
        if (ids, m, ns, nd) in seen:
            continue
        seen.add((ids, m, ns, nd))
        I.append(vector(ids, m, ns, nd))
    for d in (1, 2, 3):
        I.append(digits("c17_dup_digits%d" % d, 0, d))
    for d in ((4, 5) if tier == "quick" else (1, 2, 3, 4, 5)):
        I.append(digits("c17_port_digits%d" % d, 1, d))
    # the client's flag set (feature `client`)
    import c17client
    I += c17client.instances(tier, rnd)
    return Check("C17", tier, I, seed, features=("verif", "client"), functions=FUNCS + ["ClientConfig::new", "server::convert_file_path (file argument)"],
                 assumptions=ASSUME + ["client: same method over the client's flag table; ClientConfig::new does not skip the program name (it is parsed as the file argument, later file arguments override it); "
                                       "directory and file fields compared by length only (Path bytes of concrete literals)"],
                 explanation="Config::new on argument vectors over a flag-group table against a last-occurrence-wins reference fold with the documented defaults; "
                             "numeric values as symbolic digit strings (solver-decided), flag order/subset enumerated")
