from driver import Check, Inst

FUNCS = ["Window::new", "Window::fill", "Window::remove (real VecDeque::drain)", "Window::add",
         "Window::empty", "Window::len", "Window::is_full", "Window::is_empty", "Window::get_elements",
         "verif::fs::File::{read,write_all} (model file)"]

OPS = {"F": "(FILL,0)", "E": "(EMPTY,0)"}


def script(s):
    out = []
    for tok in s.split():
        if tok in OPS:
            out.append(OPS[tok])
        elif tok[0] == "R":
            out.append("(REMOVE,%s)" % ("ANY" if tok[1:] == "*" else tok[1:]))
        elif tok[0] == "A":
            out.append("(ADD,%s)" % tok[1:])
    return "[" + ",".join(out) + "]"


def inst(mode, w, c, j, flen, ops, unw=8, timeout=600, stub=False, fsym=False):
    nm = "c18_%s%s_w%d_c%d_j%d_f%s%d_%s" % ("snd" if mode == 1 else "rcv", "_m" if stub else "", w, c, j,
                                             "le" if fsym else "", flen, ops.replace(" ", "").replace("*", "x"))
    attr = "#[kani::stub(crate::window::Window::remove, remove_model)] " if stub else ""
    inv = "c18_script!(%s%s, %d, %d, %d, %d, %s, %d, %d, %s);" % (
        attr, nm, mode, w, c, j, "true" if fsym else "false", flen, unw, script(ops))
    return Inst(nm, "window", inv, "c18_script",
                {"mode": "sender" if mode == 1 else "receiver", "W": w, "chunk": c, "preload": j,
                 "file_len": ("0..%d (symbolic)" % flen) if fsym else flen, "ops": ops, "unwind": unw,
                 "remove": "pop_front model (equivalence with the real remove: c18_remove_equiv_*)" if stub else "real VecDeque::drain",
                 "symbolic": "all file bytes, all payload bytes, remove amounts written R* (any u16)"},
                timeout=timeout)


def remove_equiv(tier):
    """Equivalence of the pop_front stub used by the worker harnesses with the real remove."""
    out = []
    for w, j, rot in ([(3, 0, 0), (3, 1, 1), (3, 2, 0), (3, 3, 2)] if tier == "quick" else
                      [(3, 0, 0), (3, 1, 1), (3, 2, 0), (3, 3, 2), (4, 4, 3), (3, 2, 5), (2, 1, 0), (65535, 3, 1)]):
        nm = "c18_remove_equiv_w%d_j%d_r%d" % (w, j, rot)
        out.append(Inst(nm, "window", "c18_remove_equiv!(%s, %d, %d, %d, 8);" % (nm, w, j, rot),
                        "c18_remove_equiv", {"W": w, "pieces": j, "ring_rotation": rot, "amount": "any u16",
                                             "piece_bytes": "symbolic"}, timeout=900))
    return out


def build(tier, seed):
    I = []
    to = 600 if tier == "quick" else 1800
    # (a) Scripts with the real remove (VecDeque::drain).  At most one drain per script and none
    # after a short piece was queued: those shapes exhaust memory (measured > 7 GB).
    real_snd = [
        (1, 2, 0, 0, "F R1 F"), (1, 2, 0, 1, "F R1 F"), (1, 2, 0, 2, "F R1 F"), (1, 2, 0, 3, "F R1 F"),
        (1, 2, 1, 4, "R1 F F"), (1, 2, 0, 3, "F R*"), (2, 2, 1, 5, "F R1 F"), (2, 2, 2, 4, "R1 F F"),
        (2, 2, 0, 4, "F R*"), (3, 2, 2, 6, "F R3 F"), (3, 2, 1, 6, "F R*"), (2, 2, 0, 2, "A2 F R3 R*"),
        (2, 2, 0, 8, "A1 A2 A3 F"),
    ]
    real_rcv = [
        (1, 2, 0, 0, "A2 A1 E A1"), (2, 2, 1, 2, "A2 A2 E A1"), (2, 2, 0, 3, "A2 A1 A0 E"),
        (3, 2, 2, 2, "A2 A3 E"), (3, 2, 0, 0, "A1 A2 R*"), (2, 2, 2, 1, "A1 R1 A2 E"),
        (2, 3, 1, 0, "A3 A3 E"), (3, 2, 3, 0, "E A2"),
    ]
    # (b) Longer scripts with remove replaced by the pop_front model (verified equivalent to the
    # real remove by the c18_remove_equiv_* instances of this same check).
    model_snd = [
        (3, 2, 3, 8, "R2 F R1 F"), (4, 2, 4, 8, "R1 F R2"),
        (2, 2, 0, 4, "F R2 F"), (2, 2, 0, 3, "F R1 F R1 F"), (2, 2, 0, 4, "F R1 F R1 F R1 F"),
        (3, 2, 1, 8, "F R2 F R1 F"), (3, 2, 0, 5, "F R1 F R2 F"), (3, 2, 3, 6, "R2 F F R1 F"),
        (2, 3, 0, 7, "F R1 F R1 F"), (2, 1, 0, 2, "F R2 F R1 F"), (3, 2, 0, 8, "F F R4 R3 F"),
        (2, 2, 0, 5, "F R* F"), (2, 2, 0, 1, "F R1 F R1 F"), (2, 2, 0, 0, "F R1 F F"),
        (3, 2, 0, 6, "F R3 F R1 F"), (3, 2, 0, 4, "F R2 F R1 F"),
    ]
    model_rcv = [(2, 2, 1, 2, "A2 A2 E A1 E"), (3, 2, 1, 0, "A2 A1 R1 E A2 E"),
                 # the VecDeque is physically wrapped (front removed, tail refilled past the allocation end) when empty() runs
                 (3, 2, 3, 0, "R2 A2 A2 E"), (4, 2, 4, 0, "R1 A2 E"), (4, 2, 4, 0, "R3 A2 A1 A2 E")]
    if tier == "thorough":
        real_snd += [(3, 1, 0, 3, "F R*"), (4, 2, 1, 8, "F R*"), (2, 2, 0, 1, "F R*"), (1, 3, 0, 6, "F R1 F"),
                     (3, 2, 3, 8, "R* F"), (4, 2, 4, 8, "R4 F")]
        real_rcv += [(3, 2, 1, 2, "A2 A2 E A2"), (3, 2, 3, 2, "R* A2"), (2, 3, 0, 2, "A3 A3 R*"),
                     (4, 2, 0, 0, "A2 A2 A2 A2 A2 E")]
        model_snd += [(3, 2, 0, 8, "F R1 F R1 F R1 F R1 F"), (3, 3, 0, 8, "F R2 F R1 F"), (4, 2, 1, 8, "F R3 F R* F"),
                      (4, 2, 3, 8, "F R4 F R1 F"), (1, 3, 0, 6, "F R1 F R1 F R1 F"), (3, 1, 0, 3, "F R3 F R* F"),
                      (2, 2, 0, 6, "F R1 F R1 F R1 F R1 F"), (3, 2, 0, 7, "F R* F R1 F"), (4, 3, 0, 8, "F R2 F R2 F")]
        model_rcv += [(4, 2, 2, 0, "A2 A1 E A2 A2 R1 E"), (3, 2, 0, 2, "A2 R* A2 E")]
    for w, c, j, flen, ops in real_snd:
        I.append(inst(1, w, c, j, flen, ops, timeout=to))
    for w, c, j, flen, ops in real_rcv:
        I.append(inst(2, w, c, j, flen, ops, unw=10, timeout=to))
    for w, c, j, flen, ops in model_snd:
        I.append(inst(1, w, c, j, flen, ops, timeout=to, stub=True))
    for w, c, j, flen, ops in model_rcv:
        I.append(inst(2, w, c, j, flen, ops, unw=10, timeout=to, stub=True))
    I += remove_equiv(tier)
    return Check("C18", tier, I, seed, functions=FUNCS,
                 explanation="Real Window (real VecDeque, real drain) against a fixed-array reference queue written "
                             "from the property text; one harness per concrete operation script and shape, file "
                             "bytes / payload bytes / remove amounts symbolic; compared after every operation.",
                 assumptions=[
                     "shape parameters (W<=4, chunk<=3, file length<=8, script) are concrete per instance: symbolic "
                     "lengths flowing into VecDeque::drain exhaust memory (measured: >12 GB)",
                     "model file (src/verif.rs) instead of std::fs::File: reads short only at EOF, no I/O errors on the sender side",
                     "fill's boolean return value is not asserted (not part of the property text)",
                     "sequences mixing fill and empty on one handle are outside (a file is opened for reading or created for writing)",
                     "Kani models dev-profile semantics; malloc never fails; no concurrency",
                 ])
