from driver import Check, Inst
from common_worker import *


def up(name, w, j, events, tmo=0, failat=99, unw=12, timeout=900, r0=0):
    sp, ev = spec(events, 0, 0, 0)
    inv = "c13_upload!(%s, %d, 2, %d, %s, %d, %d, %d, %d);" % (name, w, j, sp, tmo, failat, r0, unw)
    return Inst(name, "worker", inv, "c13_upload",
                {"W": w, "blksize": 2, "buffered_blocks_at_abort": j, "events": ev, "write_failure_offset": {99: "never", 98: "symbolic 0..8"}.get(failat, failat),
                 "clean_on_error": "symbolic", "last_inorder_block": "any u16"}, timeout=timeout)


def build(tier, seed):
    I = []
    shapes = [(1, 0), (2, 1), (3, 2), (2, 0)] if tier == "quick" else [(1, 0), (2, 0), (2, 1), (3, 0), (3, 1), (3, 2), (4, 3)]
    for w, j in shapes:
        # any single event (ERROR, final block, full block, stray...) - abort causes ERROR and, with a failing disk, the flush
        I.append(up("c13_ev_w%d_j%d" % (w, j), w, j, [(ALLK, None, 1)]))
        I.append(up("c13_wfail_w%d_j%d" % (w, j), w, j, [(K_DATA, 1, 1, 0)], failat=98))
        # peer silence: six failed receives
        I.append(up("c13_silence_w%d_j%d" % (w, j), w, j, [(K_TIMEOUT, None, 0, 5)] * 7, tmo=5))
    # five failed receives, a duplicate block, then silence: the worker must still give up (and then clean up)
    for w, j in ([(2, 1)] if tier == "quick" else [(1, 0), (2, 1), (3, 2)]):
        I.append(up("c13_dup_then_silence_w%d_j%d" % (w, j), w, j, [(K_DATA, 0, 2, 0)] + [(K_TIMEOUT, None, 0, 5)] * 4, tmo=5, r0=5))
    if tier == "thorough":
        for w, j in [(1, 0), (2, 1), (3, 2)]:
            I.append(up("c13_ev_full_w%d_j%d" % (w, j), w, j, [(ALLK, None, 2)]))
            I.append(up("c13_wfail_full_w%d_j%d" % (w, j), w, j, [(K_DATA, 1, 2, 0)], failat=98))
            I.append(up("c13_ev_empty_w%d_j%d" % (w, j), w, j, [(ALLK, None, 0)]))
    # second sentence: stale earlier worker vs. the completed newer upload of the same name
    for l in ((1,) if tier == "quick" else (0, 1)):
        nm = "c13_stale_worker_len%d" % l
        I.append(Inst(nm, "worker", "c13_stale!(%s, %d, 12);" % (nm, l), "c13_stale",
                      {"history": "WRQ accepted (worker 1 creates the file), retransmitted WRQ accepted in overwrite mode (worker 2), worker 2 completes a 1-block upload, worker 1 sees 6 time-outs",
                       "upload_len": l, "clean_on_error": "symbolic", "interleaving": "worker 2 runs entirely inside worker 1's first blocking receive"}, timeout=900))
    return Check("C13", tier, I, seed,
                 functions=["Worker::<MockSocket>::receive (thread body run inline)", "Worker::receive_file", "verif::fs::File::create", "verif::fs::remove_file"] + WORKER_FUNCS_RCV,
                 assumptions=WORKER_ASSUMPTIONS + [
                     "std::thread::spawn stubbed: the closure runs inline, then the post-condition, then the path is cut (a JoinHandle cannot be fabricated); println!/eprintln! stubbed",
                     "second sentence: one history (retransmitted WRQ in overwrite mode, newer 1-block upload completes, stale worker times out) in one sequentially consistent interleaving; "
                     "the listener's request handling (why two workers exist) is not executed: the harness plays handle_wrq's File::create + Worker::receive_file for worker 2",
                     "abort point = injected state with j buffered (unflushed) blocks after File::create; blocks flushed before the abort are represented by the write-failure instances only",
                 ], explanation="Worker::receive from an injected state with one abort cause (peer ERROR as any event, six time-outs, write failure at a symbolic offset) and symbolic clean-on-error; "
                                "post-condition on the model file system evaluated when the thread body has finished")
