from driver import Check, Inst
from common_worker import *


def up(name, w, j, events, tmo=0, failat=99, unw=12, timeout=900):
    sp, ev = spec(events, 0, 0, 0)
    inv = "c13_upload!(%s, %d, 2, %d, %s, %d, %d, %d);" % (name, w, j, sp, tmo, failat, unw)
    return Inst(name, "worker", inv, "c13_upload",
                {"W": w, "blksize": 2, "buffered_blocks_at_abort": j, "events": ev, "write_failure_offset": {99: "never", 98: "symbolic 0..8"}.get(failat, failat),
                 "clean_on_error": "symbolic", "last_inorder_block": "any u16"}, timeout=timeout)


def build(tier, seed):
    I = []
    shapes = [(1, 0), (2, 1), (3, 2), (2, 0)] if tier == "quick" else [(1, 0), (2, 0), (2, 1), (3, 0), (3, 1), (3, 2), (4, 3)]
    for w, j in shapes:
        # any single event (ERROR, final block, full block, stray...) - abort causes ERROR and, with a failing disk, the flush
        I.append(up("c13_ev_w%d_j%d" % (w, j), w, j, [(ALLK, None, 1)]))
        I.append(up("c13_wfail_w%d_j%d" % (w, j), w, j, [(K_DATA, 1, 1, 0)], failat=98))
        # peer silence: six failed receives
        I.append(up("c13_silence_w%d_j%d" % (w, j), w, j, [(K_TIMEOUT, None, 0, 5)] * 7, tmo=5))
    if tier == "thorough":
        for w, j in [(1, 0), (2, 1), (3, 2)]:
            I.append(up("c13_ev_full_w%d_j%d" % (w, j), w, j, [(ALLK, None, 2)]))
            I.append(up("c13_wfail_full_w%d_j%d" % (w, j), w, j, [(K_DATA, 1, 2, 0)], failat=98))
            I.append(up("c13_ev_empty_w%d_j%d" % (w, j), w, j, [(ALLK, None, 0)]))
    return Check("C13", tier, I, seed,
                 functions=["Worker::<MockSocket>::receive (thread body run inline)", "Worker::receive_file", "verif::fs::File::create", "verif::fs::remove_file"] + WORKER_FUNCS_RCV,
                 assumptions=WORKER_ASSUMPTIONS + [
                     "std::thread::spawn stubbed: the closure runs inline, then the post-condition, then the path is cut (a JoinHandle cannot be fabricated); println!/eprintln! stubbed",
                     "first sentence of C13 only (abort points x causes x clean/keep of ONE upload). The second sentence (a stale earlier worker must not remove the file a newer worker completed) "
                     "needs two workers and the listener's request handling: not decided here (DESIGN 5.13 / known limitation)",
                     "abort point = injected state with j buffered (unflushed) blocks after File::create; blocks flushed before the abort are represented by the write-failure instances only",
                 ], explanation="Worker::receive from an injected state with one abort cause (peer ERROR as any event, six time-outs, write failure at a symbolic offset) and symbolic clean-on-error; "
                                "post-condition on the model file system evaluated when the thread body has finished")
