"""C17, client flag set: instance builder (used by c17.py)."""
import itertools
from driver import Inst

# group name -> (args, effect on the reference config)
G = {
    "ip0": (["-i", "0.0.0.0"], ("ip", 0)), "ip1": (["--ip-address", "1.2.3.4"], ("ip", 1)), "ip6": (["-i", "::1"], ("ip", 2)),
    "ipbad": (["-i", "1.2.3"], ("err",)),
    "p": (["-p", "1234"], ("port", 1234)), "plong": (["--port", "7"], ("port", 7)), "pbad": (["-p", "70000"], ("err",)),
    "b": (["-b", "1024"], ("blk", 1024)), "blong": (["--blocksize", "8"], ("blk", 8)), "bbad": (["-b", "x"], ("err",)),
    "w": (["-w", "4"], ("win", 4)), "wlong": (["--windowsize", "65535"], ("win", 65535)), "wbad": (["-w", "65536"], ("err",)),
    "t": (["-t", "9"], ("tmo", 9)), "tlong": (["--timeout", "1"], ("tmo", 1)),
    "rd": (["-rd", "/r"], ("rd", "/r")), "rdlong": (["--receive-directory", "/r2"], ("rd", "/r2")), "rdbad": (["-rd", "nodir"], ("err",)),
    "u": (["-u"], ("upload", True)), "ulong": (["--upload"], ("upload", True)), "d": (["-d"], ("upload", False)), "dlong": (["--download"], ("upload", False)),
    "keep": (["--keep-on-error"], ("clean", False)),
    "file": (["a.bin"], ("file", "a.bin")), "file2": (["dir/b"], ("file", "dir/b")),
}
NUMFIELD = {"p": 1, "plong": 1, "b": 2, "blong": 2, "w": 3, "wlong": 3, "t": 4, "tlong": 4}
MISSING = ["-i", "--port", "-b", "-w", "--timeout", "-rd"]


def vector(groups, missing=None, numslot=None, nd=0):
    ref = dict(err=False, ip=9, port=69, blk=512, win=1, tmo=5, upload=False, clean=True, rd="", file="client")
    args = ["client"]          # ClientConfig::new does not skip the program name: it is parsed as the file argument
    numarg = None
    for k, g in enumerate(groups):
        a, eff = G[g]
        args.append(a[0])
        if len(a) > 1:
            if k == numslot:
                numarg = len(args)
            args.append(a[1])
        if ref["err"]:
            continue
        if eff[0] == "err":
            ref["err"] = True
        else:
            ref[eff[0]] = eff[1]
    if missing is not None:
        args.append(MISSING[missing])
        ref["err"] = True
    numfield = NUMFIELD[groups[numslot]] if numslot is not None else 0
    if numslot is not None:
        # a later group of the same field overrides the symbolic number: keep such vectors out
        fld = G[groups[numslot]][1][0]
        assert all(G[g][1][0] != fld for g in groups[numslot + 1:])
    name = "c17_cl_%s%s%s" % ("_".join(groups) or "none", "_m%d" % missing if missing is not None else "",
                              "_n%dd%d" % (numslot, nd) if numslot is not None else "")
    argexpr = ",".join(('numstr(%d)' % nd) if k == numarg else 'String::from("%s")' % a for k, a in enumerate(args))
    inv = 'c17_client!(%s, [%s], %s, %d, %d, %d, %d, %d, %s, %s, b"%s", b"%s", %d, %d, 48);' % (
        name, argexpr, "true" if ref["err"] else "false", ref["ip"], ref["port"], ref["blk"], ref["win"], ref["tmo"],
        "true" if ref["upload"] else "false", "true" if ref["clean"] else "false", ref["rd"], ref["file"], numfield, nd)
    return Inst(name, "client_config", inv, "c17_client",
                {"flag_groups": list(groups), "args": args, "trailing_flag_without_value": MISSING[missing] if missing is not None else None,
                 "symbolic_number_at_group": numslot, "digits": nd}, timeout=600)


def instances(tier, rnd):
    I = [vector(())]
    singles = list(G) if tier == "thorough" else ["ip6", "ipbad", "pbad", "bbad", "wbad", "t", "rdbad", "keep", "file2"]
    for g in singles:
        I.append(vector((g,)))
    for m in ((3,) if tier == "quick" else range(6)):
        I.append(vector(("u",), missing=m))
    multis = [("u", "rd"), ("u", "rdbad"), ("d", "rd"), ("keep", "rd"), ("u", "d"), ("ip0", "ip1"), ("b", "blong"), ("rd", "rdlong"), ("file", "file2"), ("keep", "u"), ("file", "u", "b"), ("t", "tlong", "w")]
    if tier == "thorough":
        multis += [("d", "u"), ("p", "plong"), ("u", "keep")]
    if tier == "thorough":
        multis += [("u", "d", "u"), ("w", "wlong"), ("rdlong", "rd"), ("file2", "file"), ("keep", "d", "p"), ("ip6", "p", "b", "w"), ("t", "rd", "u", "file")]
    for ms in multis:
        perms = sorted(set(itertools.permutations(ms)))
        if tier == "quick" and len(perms) > 1:
            perms = rnd.sample(perms, 1) if len(ms) > 2 else perms  # pairs: both orders
        for p in perms:
            I.append(vector(p))
    seen, J = set(), []
    for i in I:
        if i.name not in seen:
            seen.add(i.name)
            J.append(i)
    I = J
    I += [vector(("u", "p", "file"), numslot=1, nd=5), vector(("b",), numslot=0, nd=4), vector(("w", "keep"), numslot=0, nd=5), vector(("file", "t"), numslot=1, nd=3)]
    return I
