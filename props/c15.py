from driver import Check
from common_worker import *
import c18


def build(tier, seed):
    so = omask("CONTENT", "BEYOND", "FLOW", "NOABORT", "TRIGGER", "PROGRESS")
    ro = omask("STORE", "ACKCAD")
    I = []
    # start blocks such that the window / the next blocks straddle 65535 -> 0
    near = (65530, 65535)
    sshapes = [(2, 1, 4), (3, 2, 6), (3, 0, 5), (1, 0, 3), (3, 3, 5), (65535, 1, 4)]
    if tier == "thorough":
        sshapes += [(2, 0, 4), (2, 1, 3), (3, 1, 5), (3, 2, 4), (3, 1, 8), (4, 3, 8), (65534, 0, 5), (1, 0, 2), (2, 2, 3)]
    for w, j, flen in sshapes:
        I.append(snd("c15_snd_w%d_j%d_f%d" % (w, j, flen), w, 2, j, flen, oracle=so, b0=near))
    # block 0 itself as the front (after the wrap)
    I.append(snd("c15_snd_zero_w2_j1_f4", 2, 2, 1, 4, oracle=so, b0=(0, 1)))
    rshapes = [(1, 0, 2, 2), (2, 1, 0, 2), (3, 2, 2, 2), (3, 1, 2, 1)]
    if tier == "thorough":
        rshapes += [(2, 0, 2, 2), (2, 1, 2, 0), (3, 0, 0, 2), (3, 2, 0, 1), (4, 3, 0, 2)]
    for w, j, flen, dlen in rshapes:
        I.append(rcv("c15_rcv_w%d_j%d_f%d_d%d" % (w, j, flen, dlen), w, 2, j, flen, dlen=dlen, oracle=ro, b0=(65532, 65535)))
    # a lost ACK right at the wrap must be repaired (duplicate of the last acknowledged block, then a time-out)
    for w, b in ([(1, 65535), (2, 65534), (3, 0)] if tier == "quick" else [(1, 65535), (1, 65534), (2, 65534), (2, 65535), (3, 65533), (3, 0), (4, 65532)]):
        I.append(rcv("c15_reack_w%d_b%d" % (w, b), w, 2, 0, 4, oracle=ro | omask("REACK"),
                     events=[(K_DATA, 0, 2, 0), (K_TIMEOUT, None, 0, 6)], tmo=5, b0=(b, b)))
    I.append(rcv("c15_rcv_zero_w2_j1_f2_d2", 2, 2, 1, 2, dlen=2, oracle=ro, b0=(0, 0)))
    I += c18.remove_equiv("quick")
    return Check("C15", tier, I, seed, functions=WORKER_FUNCS_SND + WORKER_FUNCS_RCV, assumptions=WORKER_ASSUMPTIONS + [
        "transfers of > 65535 blocks are never executed: the state after k*65536 blocks equals an injected state (DESIGN 4.5); the file model holds the <= 8 bytes from the window front on",
    ], explanation="sender and receiver loops started with block numbers 65530..65535 / 0 so that windows and faults straddle the wrap; "
                   "numbering must use modular succession, content must stay the slice of the (unwrapped) block index, ACKs 65536-W.. positions away are not accepted")
