from driver import Check
from common_worker import *
import c18


def build(tier, seed):
    so = omask("FLOW", "TRIGGER", "NOABORT", "PROGRESS")
    ro = omask("ACKCAD", "STORE")
    I = []
    # sender: one symbolic event from every injected state; boundary windows 65534 / 65535
    shapes = [(1, 0, 3), (1, 0, 2), (2, 0, 4), (2, 1, 4), (2, 1, 3), (3, 2, 6), (3, 1, 5), (3, 0, 2),
              (65535, 0, 3), (65535, 1, 4), (65534, 0, 5), (65535, 2, 4)]
    if tier == "thorough":
        shapes += [(1, 0, 0), (1, 0, 1), (2, 0, 1), (2, 0, 2), (2, 0, 3), (2, 1, 2), (2, 1, 5), (3, 0, 6), (3, 1, 2),
                   (3, 1, 3), (3, 2, 4), (3, 2, 5), (3, 2, 8), (65534, 1, 2), (65535, 0, 0), (65535, 3, 8), (4, 3, 8)]
    for w, j, flen in shapes:
        I.append(snd("c08_snd_w%d_j%d_f%d" % (w, j, flen), w, 2, j, flen, oracle=so))
    # a time-out retransmission, then a duplicate / stale ACK right after it: the timer restarts with every transmission
    for w, j, flen, rel in ([(1, 0, 3, -1), (3, 2, 6, -2)] if tier == "quick" else [(1, 0, 3, -1), (2, 1, 4, -1), (3, 2, 6, -2), (65535, 1, 4, -1)]):
        I.append(snd("c08_timeout_then_stale_w%d_j%d_f%d_r%d" % (w, j, flen, -rel), w, 2, j, flen, oracle=so, tmo=5, b0=(7, 7),
                     events=[(K_TIMEOUT, None, 0, 6), (K_ACK, rel, 0, 0)]))
    # a duplicate / stale ACK never aborts, also not when failed receives were already counted in this window position
    # (r0=9: injected retry count symbolic in 0..5; seeded change C08f-a moved the in-window test into a match guard, so
    # stale ACKs fell into the catch-all arm and were counted as failed receives)
    for w, j, flen in ([(2, 1, 4), (65535, 1, 4)] if tier == "quick" else [(1, 0, 3), (2, 1, 4), (3, 2, 6), (65535, 1, 4)]):
        I.append(snd("c08_stale_after_fails_w%d_j%d_f%d" % (w, j, flen), w, 2, j, flen, oracle=so, kinds=K_ACK, r0=9))
    # ACK-only events with two events (second event sees the state after a duplicate / partial ACK)
    # receiver: ACK cadence from every injected state (j buffered blocks), one arrival
    rshapes = [(1, 0, 0, 2), (1, 0, 2, 1), (2, 0, 2, 2), (2, 1, 0, 2), (2, 1, 2, 1), (3, 2, 2, 2), (3, 1, 0, 0), (3, 0, 4, 2)]
    if tier == "thorough":
        rshapes += [(1, 0, 0, 0), (2, 0, 0, 0), (2, 1, 2, 0), (3, 2, 0, 1), (3, 2, 2, 0), (3, 1, 2, 2), (3, 0, 0, 1), (4, 3, 0, 2)]
    for w, j, flen, dlen in rshapes:
        I.append(rcv("c08_rcv_w%d_j%d_f%d_d%d" % (w, j, flen, dlen), w, 2, j, flen, dlen=dlen, oracle=ro))
    I += c18.remove_equiv("quick")
    return Check("C08", tier, I, seed, functions=WORKER_FUNCS_SND + WORKER_FUNCS_RCV, assumptions=WORKER_ASSUMPTIONS + [
        "ACKs ahead of everything sent (bogus peer) are outside C08: no demand on them (DESIGN 2)",
        "exactly at the timeout boundary both 'elapsed' readings are accepted; strictly before: no retransmission; strictly after a failed receive: retransmission required",
    ], explanation="sender: between two receives the burst runs consecutively from the block after the last acknowledged one, "
                   "<= W outstanding, only after an in-window ACK or an elapsed timeout; duplicate/stale ACK neither transmits nor aborts "
                   "(W up to 65535). receiver: ACK at the latest after W in-order blocks and on the final block.")
