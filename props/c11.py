from driver import Check, Inst

FUNCS = ["Packet::serialize", "serialize_rrq/wrq/data/ack/error/oack", "TransferOption::as_bytes", "OptionType::as_str",
         "Opcode::from_u16", "Opcode::as_bytes", "ErrorCode::from_u16", "ErrorCode::as_bytes", "Packet::deserialize (round-trip instances)"]
ASSUME = ["every instance: serialize() compared byte for byte with an independent RFC 1350/2347 encoder written in the harness; block/error numbers any u16, payload bytes symbolic",
          "layout instances (_lay): every string byte any non-NUL ASCII value; round-trip instances (_rt): string bytes concrete (decoding all small symbolic datagrams against a reference decoder is C10's job), and the *reference* bytes "
          "(just asserted equal to the encoding) are decoded and compared with the packet - a decoder run over fully symbolic string bytes costs minutes per byte (measured, see C10) because the NUL search is not constant-folded",
          "option types and values are concrete per instance (boundary values): a symbolic value makes usize::to_string produce a symbolic-length string and exhausts memory (measured: > 280 s, out of memory)",
          "non-ASCII UTF-8, strings longer than 3 bytes, more than 2 options: outside",
          "stubs: String::from_utf8 -> ASCII model, str::to_lowercase -> ASCII model, fmt::format -> empty"]


def simple(which, plen, mlen, rt):
    name = "c11_%s_p%d_m%d_%s" % (["ack", "data", "error"][which], plen, mlen, "rt" if rt else "lay")
    return Inst(name, "packet", "c11_simple!(%s, %d, %d, %d, %s, 34);" % (name, which, plen, mlen, "true" if rt else "false"), "c11_simple",
                {"kind": ["ACK", "DATA", "ERROR"][which], "block/error number": "any u16 / 0..7", "payload_len": plen, "message_len": mlen,
                 "round_trip": rt}, timeout=900)


def request(kind, fl, ml, nopt, ocode, vlo, vhi, rt, timeout=900, mem_kb=None):
    name = "c11_%s_f%d_m%d_o%d_t%d_v%d_%d_%s" % ({1: "rrq", 2: "wrq", 6: "oack"}[kind], fl, ml, nopt, ocode, vlo, vhi, "rt" if rt else "lay")
    return Inst(name, "packet", "c11_request!(%s, %d, %d, %d, %d, %d, %dusize, %dusize, %s, 34);" % (name, kind, fl, ml, nopt, ocode, vlo, vhi, "true" if rt else "false"),
                "c11_request",
                {"kind": kind, "filename_len": fl, "mode_len": ml, "options": nopt, "option_type": ("type %d repeated" % (ocode - 10)) if ocode >= 10 else "symbolic" if ocode > 3 else "concrete (%d, then cyclic)" % ocode,
                 "value_range": [vlo, vhi], "round_trip": rt}, timeout=timeout, mem_kb=mem_kb or 10 * 1024 * 1024)


def build(tier, seed):
    I = [Inst("c11_enums", "packet", "c11_enums!(c11_enums);", "c11_enums", {"opcode": "any u16", "error code": "any u16", "exhaustive": True})]
    I.append(simple(0, 0, 0, True))
    for plen in ((0, 2, 4) if tier == "quick" else (0, 1, 2, 3, 4)):
        I.append(simple(1, plen, 0, True))
    for mlen in ((0, 1, 3) if tier == "quick" else (0, 1, 2, 3)):
        I.append(simple(2, 0, mlen, True))
        I.append(simple(2, 0, mlen, False))
    # (kind, filename len, mode len, options, first option type, value lo, value hi)
    lay = [(1, 1, 1, 0, 0, 0, 0), (2, 3, 3, 0, 0, 0, 0)]
    rt = [(1, 1, 1, 0, 0, 0, 0), (2, 2, 3, 0, 0, 0, 0), (6, 0, 0, 1, 0, 1432, 1432), (6, 0, 0, 1, 3, 65535, 65535), (1, 2, 2, 1, 1, 0, 0),
          (2, 1, 1, 2, 2, 5, 5), (6, 0, 0, 1, 2, 255, 255), (6, 0, 0, 2, 0, 8, 8),
          # the same option type twice (first option type code + 10 = "all options of that type"): an option list is a list
          (1, 1, 1, 2, 10, 512, 512), (2, 1, 1, 2, 11, 7, 7), (6, 0, 0, 2, 13, 4, 4)]
    if tier == "thorough":
        lay += [(1, 0, 0, 0, 0, 0, 0), (1, 3, 2, 0, 0, 0, 0), (2, 2, 1, 1, 1, 1000, 1000)]
        rt += [(6, 0, 0, 1, 1, 4294967296, 4294967296), (6, 0, 0, 1, 1, 18446744073709551615, 18446744073709551615),
               (6, 0, 0, 1, 0, 9223372036854775808, 9223372036854775808), (1, 3, 3, 2, 0, 8, 8), (6, 0, 0, 2, 2, 99999, 99999), (1, 0, 0, 0, 0, 0, 0),
               (2, 3, 1, 2, 3, 10, 10), (6, 0, 0, 2, 1, 0, 0)]
    # non-ASCII (valid multi-byte UTF-8) file names / modes: decode of the RFC encoding gives the same strings
    import c10
    for i_ in c10.utf8_requests():
        i_.name = i_.name.replace("c10_t_", "c11_t_")
        i_.invocation = i_.invocation.replace("c10_t_", "c11_t_")
        I.append(i_)
    # long file names (around and beyond the 512-byte request size): encoded in full
    for kind, flen in ([(1, 505), (2, 600)] if tier == "quick" else [(1, 495), (1, 505), (2, 512), (2, 600), (1, 2000)]):
        nm = "c11_long_%s_f%d" % ("rrq" if kind == 1 else "wrq", flen)
        I.append(Inst(nm, "packet", "c11_long!(%s, %d, %d, 24);" % (nm, kind, flen), "c11_long",
                      {"kind": kind, "filename": "'a' x %d (concrete)" % flen, "mode": "octet", "options": "blksize=8"}, timeout=600))
    for r in lay:
        I.append(request(*r, rt=False))
    for r in rt:
        I.append(request(*r, rt=True))
    return Check("C11", tier, I, seed, functions=FUNCS, assumptions=ASSUME,
                 explanation="enum conversions over the whole u16 range; per packet kind serialize() against an independent RFC encoder (layout) and decode of that encoding == the packet (round trip)")
