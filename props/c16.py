from driver import Check, Inst
from common_worker import *
import c17
import c18


def build(tier, seed):
    # TRIGGER: the emission of a burst takes (N copies x 1 ms) of virtual time (sleep stub advances the clock); the
    # retransmission timer must run from the END of the emission (seeded change C16d-a armed it before)
    so = omask("REPEAT", "CONTENT", "FLOW", "TRIGGER")
    ro = omask("REPEAT", "STORE", "ACKCAD")
    I = []
    sshapes = [(2, 1, 1, 2), (2, 2, 1, 3), (3, 1, 0, 3), (2, 3, 1, 4)]
    if tier == "thorough":
        sshapes += [(2, 1, 0, 1), (2, 2, 0, 4), (3, 2, 1, 3), (3, 2, 2, 5), (4, 1, 0, 2), (3, 3, 2, 6), (2, 2, 2, 3)]
    for rep, w, j, flen in sshapes:
        I.append(snd("c16_snd_n%d_w%d_j%d_f%d" % (rep - 1, w, j, flen), w, 2, j, flen, rep=rep, oracle=so))
    rshapes = [(2, 1, 0, 0, 2), (2, 2, 1, 0, 2), (3, 2, 1, 2, 1), (2, 3, 2, 0, 0)]
    if tier == "thorough":
        rshapes += [(2, 1, 0, 2, 1), (3, 1, 0, 0, 0), (3, 3, 2, 2, 2), (4, 2, 1, 0, 2), (2, 2, 0, 2, 2)]
    for rep, w, j, flen, dlen in rshapes:
        I.append(rcv("c16_rcv_n%d_w%d_j%d_f%d_d%d" % (rep - 1, w, j, flen, dlen), w, 2, j, flen, rep=rep, dlen=dlen, oracle=ro))
    # the server's own sender facing a peer that acknowledges every copy: the N extra ACKs per block arrive stale; they
    # are not failed receives (state: up to 5 such ACKs already seen in this window, then one more event)
    for rep, w, j, flen in ([(2, 1, 0, 3), (4, 2, 1, 3)] if tier == "quick" else [(2, 1, 0, 3), (4, 2, 1, 3), (3, 1, 0, 2), (3, 3, 2, 5)]):
        I.append(snd("c16_ack_every_copy_n%d_w%d_j%d_f%d" % (rep - 1, w, j, flen), w, 2, j, flen, rep=rep,
                     oracle=so | omask("NOABORT", "RETRY"), r0=9, mem_kb=12 * 1024 * 1024))
    # N = 254 (repeat count 255): a 255-fold unrolled burst did not finish (CBMC error after 10 min); covered only by the
    # flag parser (254 accepted, 255 rejected) and by the repeat loop being the same code for every count
    # initial reply sent exactly once is part of C09's accept_request harness; the flag itself:
    for d in (1, 2, 3):
        I.append(c17.digits("c16_flag_digits%d" % d, 0, d))
    I += c18.remove_equiv("quick")
    return Check("C16", tier, I, seed, functions=WORKER_FUNCS_SND + WORKER_FUNCS_RCV + ["Config::new (--duplicate-packets)"],
                 assumptions=WORKER_ASSUMPTIONS + ["repeat count (N+1) concrete per instance: 2, 3, 4; N = 254 only through the flag parser (a 255-fold burst was not affordable)",
                                                   "the initial OACK / ACK 0 / ERROR reply is emitted by accept_request / the handlers with Socket::send directly (not send_packet): its 'exactly once' is asserted in C09's harness"],
                 explanation="with repeat count N+1 every DATA block of a burst and every ACK is emitted exactly N+1 times back to back, content and flow rules unchanged; "
                             "--duplicate-packets accepted iff < 255 for every 1..3-digit value")
