from driver import Check, Inst
from common_worker import *
import c18


def build(tier, seed):
    I = []
    for n in ([0, 1, 2, 3] if tier == "quick" else [0, 1, 2, 3, 4]):
        nm = "c09_options_n%d" % n
        I.append(Inst(nm, "server", "c09_options!(%s, %d, 7);" % (nm, n), "c09_options",
                      {"options": n, "option_types": "symbolic, pairwise distinct", "values": "any usize",
                       "request": "Read(any u64) | Write (symbolic)"}, timeout=900))
    # the transfer uses exactly the negotiated values (worker level)
    uo = omask("CONTENT", "FULLWIN", "TRIGGER", "PROGRESS", "FLOW")
    for w, blk, j, flen in ([(2, 2, 0, 4), (3, 3, 1, 8), (1, 3, 0, 4)] if tier == "quick" else
                            [(2, 2, 0, 4), (3, 3, 1, 8), (1, 3, 0, 4), (3, 2, 0, 6), (2, 3, 1, 7), (1, 1, 0, 2), (2, 1, 1, 3)]):
        I.append(snd("c09_use_w%d_b%d_j%d_f%d" % (w, blk, j, flen), w, blk, j, flen, oracle=uo))
    # defaults: lock-step, first reply DATA 1 (from the start, no handshake)
    I.append(snd("c09_default_first_block", 1, 2, 0, 3, oracle=uo, fs=True, b0=(1, 1)))
    # every acknowledged timeout must be usable: interval = any u64 >= 1 seconds (what parse_options lets through)
    I.append(snd("c09_use_any_timeout", 1, 2, 0, 3, oracle=omask("TRIGGER", "NOABORT"), tmo=99999, kinds=K_ACK | K_TIMEOUT))
    # option names: compared case-insensitively, unknown options (with any value) ignored - concrete requests through the real decoder
    import c10
    for tag, data in [("upper", b"\x00\x01f\x00o\x00BLKSIZE\x008\x00"), ("mixed", b"\x00\x02f\x00o\x00TiMeOuT\x003\x00wINDOWSIZe\x004\x00"),
                      ("unk_text", b"\x00\x01f\x00o\x00foo\x00bar\x00blksize\x008\x00"), ("unk_empty", b"\x00\x02f\x00o\x00multicast\x00\x00tsize\x000\x00"),
                      ("unk_only", b"\x00\x01f\x00o\x00rollover\x00x\x00"), ("near_miss", b"\x00\x01f\x00o\x00blksizes\x009\x00")]:
        i_ = c10.tmpl("c09name_" + tag, data, [])
        i_.name = i_.name.replace("c10_t_", "c09_t_")
        i_.invocation = i_.invocation.replace("c10_t_", "c09_t_")
        I.append(i_)
    I += c18.remove_equiv("quick")
    return Check("C09", tier, I, seed,
                 functions=["server::parse_options", "server::accept_request::<OptSock>", "RequestType", "WorkerOptions"],
                 assumptions=["function level: the handler glue (handle_rrq/handle_wrq passing WorkerOptions to Worker::new and set_read_timeout) needs sockets and is outside",
                              "duplicate option types in one request excluded",
                              "option-name matching (case-insensitive, unknown ignored) is decided on the decoder (c09_names instances)"],
                 explanation="parse_options + accept_request on every option list of <=4 distinct options with full-range values")
