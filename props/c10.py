from driver import Check, Inst

STUBS = "#[kani::stub(std::string::String::from_utf8, from_utf8_ascii)] #[kani::stub(str::to_lowercase, to_lowercase_ascii)] "
STUBS_U = "#[kani::stub(std::string::String::from_utf8, from_utf8_model)] #[kani::stub(str::to_lowercase, to_lowercase_ascii)] "
OPN = {1: "rrq", 2: "wrq", 3: "data", 4: "ack", 5: "error", 6: "oack"}


def dec(l, op, stable=False, real_utf8=False, timeout=600, mem_kb=None, unw=34):
    name = "c10_%s_l%d%s%s" % (OPN[op], l, "_stable" if stable else "", "_utf8" if real_utf8 else "")
    attr = "" if real_utf8 else STUBS
    inv = "c10_decode!(%s%s, %d, 0, %d, %s, %d);" % (attr, name, l, op, "true" if stable else "false", unw)
    return Inst(name, "packet", inv, "c10_decode",
                {"datagram_length": l, "opcode": op, "other_bytes": "all symbolic", "re-encode_check": stable,
                 "utf8": "real String::from_utf8" if real_utf8 else "ASCII model (bytes >= 0x80 inside strings outside the claim)", "unwind": unw},
                timeout=timeout, mem_kb=mem_kb)


def badop(l, op):
    name = "c10_badop_l%d_op%d" % (l, op)
    return Inst(name, "packet", "c10_decode!(%s%s, %d, %d, %d, false, 34);" % (STUBS, name, l, op >> 8, op & 255), "c10_decode",
                {"datagram_length": l, "opcode": op, "other_bytes": "all symbolic"}, timeout=300)


def tmpl(tag, data, positions, stable=False, real_utf8=False, timeout=600, mem_kb=None, unw=34, badutf8=False, utf8_model=False):
    name = "c10_t_%s_p%s%s%s" % (tag, "_".join(str(p) for p in positions), "_stable" if stable else "", "_utf8" if real_utf8 else "")
    attr = "" if real_utf8 else (STUBS_U if utf8_model else STUBS)
    inv = "c10_template!(%s%s, [%s], [%s], %s, %s, %d);" % (attr, name, ",".join(str(x) for x in data), ",".join(str(p) for p in positions),
                                                         "true" if stable else "false", "true" if badutf8 else "false", unw)
    return Inst(name, "packet", inv, "c10_template",
                {"template": data.decode("latin1").replace("\x00", "\\0"), "length": len(data), "symbolic_byte_positions": list(positions),
                 "re-encode_check": stable, "utf8": "real" if real_utf8 else "ASCII model"}, timeout=timeout, mem_kb=mem_kb)


FUNCS = ["Packet::deserialize", "Convert::to_u16", "Convert::to_string", "parse_rq", "parse_data", "parse_ack", "parse_oack",
         "parse_error", "Opcode::from_u16", "ErrorCode::from_u16", "OptionType::from_str", "str::parse::<usize> (real std)",
         "Packet::serialize (stability instances)"]
ASSUME = ["solver-decided families: (1) every ACK / DATA / ERROR datagram of length 2..6 (all bytes after the opcode symbolic), every RRQ/WRQ/OACK of length 2; (2) datagrams of 0, 1 and 2 bytes incl. invalid opcodes (longer datagrams with an invalid opcode are outside: see the comment in props/c10.py; Opcode::from_u16 itself is decided over all u16 in C11); "
          "(3) ERROR templates with 1..2 symbolic byte positions (code, terminator, message bytes)",
          "NOT solver-decided: RRQ/WRQ/OACK with any symbolic byte - one possibly-NUL byte makes every later string length symbolic and the run exceeds 600 s / 10 GB (measured for 3-byte requests and for 1 symbolic byte in a 6-byte template). "
          "Requests and OACKs are therefore covered by CONCRETE datagrams (all prefixes of valid packets, single-byte substitutions, case variants, boundary numbers; VERIF_SEED varies the sample) executed by the engine against the reference decoder: an enumeration, stated as such",
          "stubs in instances not marked _utf8: String::from_utf8 -> ASCII-only model (assumes bytes < 0x80), str::to_lowercase -> ASCII model, fmt::format -> empty",
          "ERROR without NUL decodes to '(no message)' (pinned test parses_error_without_message): documented leniency, not asserted as a rejection",
          "reference decoder for RRQ/WRQ/OACK written from RFC 1350/2347 in the harness (optional '+' accepted in numbers as str::parse does)"]

RRQ = b"\x00\x01f\x00o\x00"
RRQ_BLK = b"\x00\x01f\x00o\x00blksize\x00512\x00"
WRQ_2 = b"\x00\x02a\x00b\x00timeout\x005\x00WINDOWSIZE\x008\x00"
OACK_T = b"\x00\x06tsize\x000\x00"
OACK_W = b"\x00\x06windowsize\x0065535\x00"
ERR = b"\x00\x05\x00\x01xy\x00"
RRQ_PLUS = b"\x00\x01f\x00o\x00tsize\x00+5\x00"
RRQ_UNK = b"\x00\x01f\x00o\x00foo\x00bar\x00blksize\x008\x00"


def utf8_requests():
    """Valid multi-byte UTF-8 in request strings (concrete), through a UTF-8 *model* of String::from_utf8 (the real validator
    is not affordable on requests): the decoder must hand back the same bytes.  Invalid UTF-8 in requests stays outside."""
    out = []
    for n, data in enumerate([b"\x00\x01\xc3\xa9\x00octet\x00", b"\x00\x02a\xe2\x82\xac\x00m\xc3\xa9\x00blksize\x008\x00",
                              b"\x00\x01\xc3\xa9\xc3\xa9\x00o\x00"]):
        out.append(tmpl("utf8req_n%d" % n, data, [], utf8_model=True))
    return out


def build(tier, seed):
    import random
    rnd = random.Random(seed or 1)
    I = []
    I.append(badop(0, 0))
    I.append(badop(1, 0))
    # longer datagrams with an invalid opcode: the Err("Invalid opcode") result is niche-encoded and CBMC does not fold the
    # '?' on it, so all six parsers are explored on symbolic bytes (> 300 s measured for 3 bytes); the opcode check itself is
    # decided for all u16 in C11 (c11_enums)
    for l, op in ([(2, 0), (2, 7), (2, 256), (2, 65535)] if tier == "quick" else [(2, op) for op in (0, 7, 8, 255, 256, 257, 1536, 65535)]):
        I.append(badop(l, op))
    for l in (2, 3, 4, 5, 6):
        I.append(dec(l, 4, stable=(l == 4 and tier == 'thorough')))
        I.append(dec(l, 3, stable=(l == 5 and tier == 'thorough')))
    for l in (2, 3, 4, 5, 6):
        I.append(dec(l, 5, stable=(l == 4 and tier == 'thorough')))
    for op in (1, 2, 6):
        I.append(dec(2, op))
    # ERROR templates with symbolic positions (the ERROR decoder has a single string: affordable)
    for pos in ([3], [2], [6], [4], [4, 5]):
        I.append(tmpl("err", ERR, pos))
    # Requests / OACK: one symbolic byte makes the NUL search - hence every string length - symbolic and the run exceeds
    # 600 s (measured), so these are CONCRETE datagrams executed by the engine: every prefix of valid packets (each cut point:
    # missing terminators, truncated names / values) and single-byte substitutions at structurally relevant positions.
    seen = set()

    def conc(tag, data):
        if data in seen or len(data) > 32:
            return
        seen.add(data)
        I.append(tmpl("%s_n%d" % (tag, len(seen)), data, []))

    bases = [("rrq", RRQ), ("rrqblk", RRQ_BLK), ("oackt", OACK_T), ("plus", RRQ_PLUS), ("unk", RRQ_UNK), ("wrq2", WRQ_2), ("oackw", OACK_W)]
    for tag, data in bases:
        cuts = list(range(2, len(data) + 1))
        if tier == "quick" and len(cuts) > 4:
            cuts = sorted(set(rnd.sample(cuts, 2) + [len(data), len(data) - 1]))
        for c in cuts:
            conc(tag + "_cut", data[:c])
    subs = [b"x", b"\x00", b"9", b"-", b"B"]
    for tag, data in bases[:5]:
        poss = list(range(2, len(data)))
        if tier == "quick":
            poss = rnd.sample(poss, min(3, len(poss)))
        for p_ in poss:
            for sub in (subs if tier == "thorough" else rnd.sample(subs, 1)):
                conc(tag + "_sub", data[:p_] + sub + data[p_ + 1:])
    conc("upper", b"\x00\x01f\x00o\x00BLKSIZE\x008\x00")
    conc("mixed", b"\x00\x02f\x00o\x00TiMeOuT\x003\x00wINDOWSIZe\x004\x00")
    conc("big", b"\x00\x06tsize\x0018446744073709551615\x00")
    conc("toobig", b"\x00\x06tsize\x0018446744073709551616\x00")
    conc("neg", b"\x00\x01f\x00o\x00tsize\x00-1\x00")
    conc("empty_val", b"\x00\x01f\x00o\x00tsize\x00\x00")
    conc("empty_names", b"\x00\x01\x00\x00")
    # non-ASCII message bytes through the real String::from_utf8: affordable for ERROR only.  The same for RRQ/WRQ/OACK
    # (concrete bytes!) did not finish in 600 s: the real validator runs on the heap copy made by Convert::to_string and is
    # not constant-folded.  Non-ASCII bytes inside request strings are therefore OUTSIDE the claim (seeds C10d-a, C11d-a).
    I += utf8_requests()
    for n, (data, bad) in enumerate([(b"\x00\x05\x00\x01\xc3\xa9\x00", False), (b"\x00\x05\x00\x02\xff\x00", True)]):
        I.append(tmpl("utf8_%s_n%d" % ("bad" if bad else "ok", n), data, [], real_utf8=True, badutf8=bad))
    if tier == "thorough":
        # 3-byte requests with one symbolic byte: did not finish in 600 s in quick; given 30 min / 20 GB here, "not explored" otherwise
        I.append(dec(3, 1, timeout=1800, mem_kb=20 * 1024 * 1024))
        I.append(dec(3, 6, timeout=1800, mem_kb=20 * 1024 * 1024))
        I.append(dec(8, 5))
        I.append(dec(9, 3, stable=True))
        I.append(dec(5, 5, real_utf8=True, timeout=1800, mem_kb=20 * 1024 * 1024))
        I.append(tmpl("err", ERR, [4], real_utf8=True, timeout=1800, mem_kb=14 * 1024 * 1024))
    return Check("C10", tier, I, seed, functions=FUNCS, assumptions=ASSUME,
                 explanation="Packet::deserialize: no panic / failed bounds check (totality), agreement with a reference decoder incl. all rejection cases, "
                             "and decode(encode(decode(x))) == decode(x) in the _stable instances")
