from driver import Check, Inst

STUBS = "#[kani::stub(std::string::String::from_utf8, from_utf8_ascii)] #[kani::stub(str::to_lowercase, to_lowercase_ascii)] "
OPN = {1: "rrq", 2: "wrq", 3: "data", 4: "ack", 5: "error", 6: "oack"}


def dec(l, op, stable=False, real_utf8=False, timeout=900, mem_kb=None, unw=None):
    opsym = op is None
    name = "c10_%s_l%d%s%s" % ("badop" if opsym else OPN[op], l, "_stable" if stable else "", "_utf8" if real_utf8 else "")
    attr = "" if real_utf8 else STUBS
    unw = unw or (l + 3 if l + 3 > 14 else 14)
    inv = "c10_decode!(%s%s, %d, %s, %d, %s, %d);" % (attr, name, l, "true" if opsym else "false", op or 0,
                                                    "true" if stable else "false", unw)
    return Inst(name, "packet", inv, "c10_decode",
                {"datagram_length": l, "opcode": "any u16 outside 1..6" if opsym else op, "other_bytes": "symbolic",
                 "re-encode_check": stable, "utf8": "real String::from_utf8" if real_utf8 else "ASCII model (bytes >= 0x80 inside strings outside the claim)",
                 "unwind": unw}, timeout=timeout, mem_kb=mem_kb)


FUNCS = ["Packet::deserialize", "Convert::to_u16", "Convert::to_string", "parse_rq", "parse_data", "parse_ack", "parse_oack",
         "parse_error", "Opcode::from_u16", "ErrorCode::from_u16", "OptionType::from_str", "str::parse::<usize> (real std)",
         "Packet::serialize (stability instances)"]
ASSUME = ["one instance per datagram length and opcode class; all remaining bytes symbolic",
          "stubs in instances not marked _utf8: String::from_utf8 -> ASCII-only model (assumes bytes < 0x80), str::to_lowercase -> ASCII model, fmt::format -> empty",
          "ERROR without NUL decodes to '(no message)' (pinned test parses_error_without_message): documented leniency, not asserted as a rejection",
          "reference decoder for RRQ/WRQ/OACK written from RFC 1350/2347 in the harness (optional '+' accepted in numbers as str::parse does)",
          "datagrams longer than the instance lengths (quick <= 6 for requests, thorough <= 9) are outside the claim"]


def build(tier, seed):
    I = []
    # lengths 0..4 with any opcode (incl. unknown): totality + rejection
    for l in (0, 1, 2, 3, 4):
        I.append(dec(l, None))
    for l in (2, 3, 4, 5, 6):
        I.append(dec(l, 4))
        I.append(dec(l, 3, stable=(l == 6)))
    for l in (3, 4, 5, 6):
        I.append(dec(l, 5))
    I.append(dec(5, 5, real_utf8=True, timeout=1500, mem_kb=14 * 1024 * 1024))
    for l in (2, 3, 4, 5):
        I.append(dec(l, 1, timeout=1500, mem_kb=12 * 1024 * 1024))
        I.append(dec(l, 6, timeout=1500, mem_kb=12 * 1024 * 1024))
    I.append(dec(4, 2, stable=True, timeout=1500, mem_kb=12 * 1024 * 1024))
    I.append(dec(6, 6, timeout=1800, mem_kb=14 * 1024 * 1024))
    if tier == "thorough":
        for l in (6, 7, 8):
            I.append(dec(l, 1, timeout=3600, mem_kb=20 * 1024 * 1024))
            I.append(dec(l, 6, stable=(l == 7), timeout=3600, mem_kb=20 * 1024 * 1024))
        I.append(dec(6, 2, stable=True, timeout=3600, mem_kb=20 * 1024 * 1024))
        I.append(dec(8, 5, stable=True))
        I.append(dec(9, 3, stable=True))
        I.append(dec(4, 1, real_utf8=True, timeout=3600, mem_kb=20 * 1024 * 1024))
        I.append(dec(6, 5, real_utf8=True, timeout=3600, mem_kb=20 * 1024 * 1024))
    return Check("C10", tier, I, seed, functions=FUNCS, assumptions=ASSUME,
                 explanation="Packet::deserialize on every datagram of the instance's length and opcode class: no panic / failed bounds check (totality), "
                             "agreement with a reference decoder incl. all rejection cases, and decode(encode(decode(x))) == decode(x) in the _stable instances")
