from driver import Check
from common_worker import *


def build(tier, seed):
    orc = omask("CONTENT", "BEYOND")
    I = []
    shapes = [(1, 0, 0), (1, 0, 1), (1, 0, 2), (1, 0, 3), (2, 0, 4), (2, 1, 2), (2, 1, 3), (2, 1, 4),
              (3, 1, 5), (3, 2, 4), (3, 2, 6), (3, 0, 3)]
    for w, j, flen in shapes:
        I.append(snd("c01_snd_w%d_j%d_f%d" % (w, j, flen), w, 2, j, flen, oracle=orc))
    return Check("C01", tier, I, seed, functions=WORKER_FUNCS_SND, assumptions=WORKER_ASSUMPTIONS,
                 explanation="send_file from every injected pre-EOF state, one fully symbolic peer event, second burst observed")
