from driver import Check
from common_worker import *


def build(tier, seed):
    orc = omask("CONTENT", "BEYOND")
    I = []
    shapes = [(1, 0, 0), (1, 0, 1), (1, 0, 2), (1, 0, 3), (2, 0, 4), (2, 1, 2), (2, 1, 3), (2, 1, 4),
              (3, 1, 5), (3, 2, 4), (3, 2, 6), (3, 0, 3)]
    for w, j, flen in shapes:
        I.append(snd("c01_snd_w%d_j%d_f%d" % (w, j, flen), w, 2, j, flen, oracle=orc))
    # duplicate-packets mode must not change what a block number carries
    for rep, w, j, flen in ([(2, 2, 1, 3)] if tier == "quick" else [(2, 2, 1, 3), (3, 1, 0, 1), (2, 3, 2, 5)]):
        I.append(snd("c01_snd_rep%d_w%d_j%d_f%d" % (rep, w, j, flen), w, 2, j, flen, rep=rep, oracle=orc, mem_kb=12 * 1024 * 1024))
    if tier == "thorough":
        for w, j, flen in [(1, 0, 4), (2, 0, 1), (2, 0, 2), (2, 0, 3), (2, 1, 5), (3, 0, 5), (3, 0, 6), (3, 1, 3), (3, 1, 4), (3, 2, 5), (3, 2, 8), (4, 3, 8), (65535, 1, 4)]:
            I.append(snd("c01_snd_w%d_j%d_f%d" % (w, j, flen), w, 2, j, flen, oracle=orc))
        for w, j, flen in [(2, 2, 3), (3, 2, 2), (3, 3, 5), (2, 1, 1)]:
            I.append(snd("c01_posteof_w%d_j%d_f%d" % (w, j, flen), w, 2, j, flen, oracle=orc))
        for w, blk, j, flen in [(2, 3, 1, 7), (2, 1, 1, 3), (1, 3, 0, 6)]:
            I.append(snd("c01_blk%d_w%d_j%d_f%d" % (blk, w, j, flen), w, blk, j, flen, oracle=orc))
        I.append(snd("c01_hs_w2_f3", 2, 2, 0, 3, oracle=orc, hs=True, fs=True, b0=(1, 1)))
    import c18
    I += c18.remove_equiv("quick")
    return Check("C01", tier, I, seed, functions=WORKER_FUNCS_SND, assumptions=WORKER_ASSUMPTIONS,
                 explanation="send_file from every injected pre-EOF state, one fully symbolic peer event, second burst observed")
