from driver import Check
from common_worker import *


def build(tier, seed):
    ro = omask("STORE", "ACKCAD")
    I = []
    # one arrival from every injected state: (W, buffered blocks j, flushed bytes, payload length of a DATA arrival)
    shapes = [(1, 0, 0, 2), (1, 0, 2, 1), (1, 0, 2, 0), (2, 0, 0, 2), (2, 1, 2, 2), (2, 1, 0, 1), (2, 1, 2, 0),
              (3, 2, 2, 2), (3, 1, 2, 1), (3, 0, 4, 2), (3, 2, 0, 0)]
    if tier == "thorough":
        shapes += [(1, 0, 0, 0), (1, 0, 0, 1), (1, 0, 4, 2), (2, 0, 2, 1), (2, 0, 2, 0), (2, 0, 4, 2), (2, 1, 0, 2), (2, 1, 0, 0),
                   (3, 0, 0, 2), (3, 0, 0, 1), (3, 0, 0, 0), (3, 1, 0, 2), (3, 1, 0, 0), (3, 2, 0, 2), (3, 2, 2, 1), (3, 2, 2, 0),
                   (4, 3, 0, 2), (4, 2, 2, 1)]
    for w, j, flen, dlen in shapes:
        I.append(rcv("c02_rcv_w%d_j%d_f%d_d%d" % (w, j, flen, dlen), w, 2, j, flen, dlen=dlen, oracle=ro))
    # from the very start (no injection): first arrival
    for w, dlen in ([(1, 2), (2, 1)] if tier == "quick" else [(1, 2), (1, 1), (1, 0), (2, 2), (2, 1), (3, 2), (3, 0)]):
        I.append(rcv("c02_start_w%d_d%d" % (w, dlen), w, 2, 0, 0, dlen=dlen, oracle=ro, start=True, b0=(0, 0)))
    # blksize 3
    for w, j, flen, dlen in ([(2, 1, 0, 3)] if tier == "quick" else [(2, 1, 0, 3), (2, 1, 3, 2), (1, 0, 3, 1)]):
        I.append(rcv("c02_blk3_w%d_j%d_f%d_d%d" % (w, j, flen, dlen), w, 3, j, flen, dlen=dlen, oracle=ro))
    return Check("C02", tier, I, seed, functions=WORKER_FUNCS_RCV, assumptions=WORKER_ASSUMPTIONS + [
        "DATA payloads longer than blksize cannot be produced by recv_with_size(blksize) on the real sockets (buffer blksize+4) and are excluded",
        "an ACK must name the last block received in sequence and the file must then equal exactly the in-order payloads (flushed state + buffered blocks + accepted arrival)",
    ], explanation="receive_file from every injected state (any last in-order block number, j buffered blocks, flushed prefix), one fully symbolic arrival "
                   "(DATA any number / ACK / OACK / ERROR / time-out); ghost stream of in-order payloads compared with the model file at every ACK and at return")
