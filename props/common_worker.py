"""Instance builders for the worker harness families (snd_inject / rcv_inject)."""
from driver import Inst

O = dict(CONTENT=1, BEYOND=2, FLOW=4, TRIGGER=8, NOABORT=16, PROGRESS=32, END=64, REPEAT=128,
         STORE=256, ACKCAD=512, FULLWIN=1024, RETRY=2048, REACK=4096, REACK2=8192)
K_TIMEOUT, K_ACK, K_DATA, K_ERROR, K_OACK = 1, 2, 4, 8, 16
ALLK = 31

WORKER_FUNCS_SND = ["Worker::<MockSocket>::send_file", "Worker::send_window", "Worker::send_packet",
                    "Worker::check_response (handshake instances)", "Window::new", "Window::fill",
                    "Window::is_empty", "Window::get_elements", "Window::len",
                    "Window::remove (replaced by the pop_front model; equivalence harness c18_remove_equiv_*)",
                    "verif::fs::File::read (model file)", "verif::time::Instant (virtual clock)"]
WORKER_FUNCS_RCV = ["Worker::<MockSocket>::receive_file", "Worker::send_packet", "Window::new", "Window::add",
                    "Window::is_full", "Window::empty", "verif::fs::File::write_all (model file)"]

WORKER_ASSUMPTIONS = [
    "peer/network = mock Socket: each recv returns an event chosen by the solver (kind, block number, payload bytes, clock advance <= 600 s)",
    "file system = one in-memory model file of <= 16 bytes (src/verif.rs): reads short only at EOF, no read errors",
    "clock = virtual; moved by recv (symbolic advance per event) and by send_packet's 1 ms pause between the copies of a datagram (hook H4: crate::verif::sleep)",
    "stubs: std::fmt::format -> empty String; Window::remove -> pop_front model (verified by c18_remove_equiv_*)",
    "shape parameters (W, blksize=2..3, pre-load, tail length, repeat count, number of events K) concrete per instance; after K events the path is cut",
    "states injected through the verif hooks are pre-EOF states (DESIGN 4.5); post-EOF states are entered by a real event",
    "negotiated timeout symbolic in 1..=255 s",
    "Kani: dev-profile semantics (overflow checks on), malloc never fails, no concurrency; release semantics covered by native replay only",
]


def omask(*names):
    m = 0
    for n in names:
        m |= O[n]
    return m


ANYNUM = 99999


def spec(events, k, kinds, dlen):
    """events: list of (kinds_mask, rel or None, dlen) or None -> k fully symbolic events"""
    if events is None:
        events = [(kinds, None, dlen)] * k
    events = [tuple(e) + (None,) * (4 - len(e)) for e in events]
    return "[" + ",".join("(%d, %d, %d, %d)" % (km, ANYNUM if rel is None else rel, dl, -1 if dt is None else dt)
                          for km, rel, dl, dt in events) + "]", events


def snd(name, w, blk, j, flen, rep=1, k=1, kinds=ALLK, oracle=0, b0=(0, 65535), hs=False, fs=False,
        unw=None, timeout=900, family="snd_inject", mem_kb=None, events=None, tmo=0, r0=0):
    sp, events = spec(events, k, kinds, 0)
    k = len(events)
    unw = unw or (max(w if w < 100 else 4, blk, rep, k + 1, 3) + 3)
    inv = "snd_inject!(%s, %d, %d, %d, %d, %d, %s, %d, %d, %d, %d, %s, %s, %d, %d);" % (
        name, w, blk, j, flen, rep, sp, tmo, oracle, b0[0], b0[1], "true" if hs else "false",
        "true" if fs else "false", r0, unw)
    return Inst(name, "worker", inv, family, {
        "role": "sender", "W": w, "blksize": blk, "preloaded_blocks": j, "tail_len": flen, "repeat": rep,
        "events": k, "event_script(kinds_mask, number rel. to window front or any, payload)": events,
        "oracle_mask": oracle, "start_block": "%d..=%d" % b0,
        "negotiated_timeout": "symbolic 1..=255 s" if tmo == 0 else "%d s" % tmo,
        "handshake": hs, "from_start": fs, "injected_retry_count": {0: "none", 9: "symbolic 0..5"}.get(r0, r0), "unwind": unw}, timeout=timeout, mem_kb=mem_kb)


def rcv(name, w, blk, j, flen, rep=1, k=1, kinds=ALLK, dlen=2, oracle=0, b0=(0, 65535), start=False,
        unw=None, timeout=900, family="rcv_inject", mem_kb=None, events=None, tmo=0, r0=0):
    sp, events = spec(events, k, kinds, dlen)
    k = len(events)
    unw = unw or 12
    inv = "rcv_inject!(%s, %d, %d, %d, %d, %d, %s, %d, %d, %d, %d, %s, %d, %d);" % (
        name, w, blk, j, flen, rep, sp, tmo, oracle, b0[0], b0[1], "true" if start else "false", r0, unw)
    return Inst(name, "worker", inv, family, {
        "role": "receiver", "W": w, "blksize": blk, "buffered_blocks": j, "flushed_bytes": flen, "repeat": rep,
        "events": k, "event_script(kinds_mask, number rel. to last in-order block or any, payload len)": events,
        "oracle_mask": oracle,
        "last_inorder_block": "%d..=%d" % b0, "from_start": start, "injected_retry_count": {0: "none", 9: "symbolic 0..5"}.get(r0, r0), "unwind": unw}, timeout=timeout, mem_kb=mem_kb)
