from driver import Check
from common_worker import *
import c18


def build(tier, seed):
    so = omask("PROGRESS", "RETRY", "NOABORT", "CONTENT", "FLOW")
    ro = omask("RETRY", "STORE", "PROGRESS", "ACKCAD")
    I = []
    # sender: every single fault from every state: lost ACK / lost DATA show up as a time-out (must retransmit,
    # must not give up), duplicated / delayed ACKs as stale ACKs (must not abort), stray packets ignored
    sshapes = [(1, 0, 3), (2, 1, 4), (2, 0, 2), (3, 2, 5), (2, 2, 3), (3, 3, 4)]
    if tier == "thorough":
        sshapes += [(1, 0, 0), (1, 0, 1), (1, 0, 2), (2, 0, 3), (2, 1, 2), (2, 1, 3), (3, 0, 6), (3, 1, 4), (3, 2, 6), (3, 2, 2), (2, 1, 1), (4, 2, 8)]
    for w, j, flen in sshapes:
        # r0=9: the number of failed receives already counted in the current window is symbolic (0..5)
        I.append(snd("c04_snd_w%d_j%d_f%d" % (w, j, flen), w, 2, j, flen, oracle=so, r0=9))
    # progress resets the retry budget: 5 failed receives, then an ACK that advances the window (sender) / an in-sequence
    # block (receiver), then one more failed receive -> the transfer must go on (failures are not consecutive)
    for w, j, flen in ([(1, 0, 3), (2, 1, 4)] if tier == "quick" else [(1, 0, 3), (2, 1, 4), (3, 2, 6), (2, 0, 5)]):
        I.append(snd("c04_reset_snd_w%d_j%d_f%d" % (w, j, flen), w, 2, j, flen, oracle=so, r0=5, tmo=5, b0=(7, 7),
                     events=[(K_ACK, 0, 0, 0), (K_TIMEOUT, None, 0, 6)]))
    for w, j in ([(3, 0), (2, 0)] if tier == "quick" else [(3, 0), (3, 1), (2, 0), (4, 2)]):
        I.append(rcv("c04_reset_rcv_w%d_j%d" % (w, j), w, 2, j, 0, oracle=ro, r0=5, tmo=5, b0=(7, 7),
                     events=[(K_DATA, 1, 2, 0), (K_TIMEOUT, None, 0, 6)]))
    # receiver: lost DATA / reordering / duplication = out-of-sequence arrival: nothing stored, no abort
    rshapes = [(1, 0, 2, 2), (2, 1, 0, 2), (3, 2, 2, 1), (2, 0, 2, 0)]
    if tier == "thorough":
        rshapes += [(1, 0, 0, 1), (2, 1, 2, 2), (3, 0, 0, 2), (3, 1, 2, 2), (3, 2, 0, 0), (4, 3, 0, 2)]
    for w, j, flen, dlen in rshapes:
        I.append(rcv("c04_rcv_w%d_j%d_f%d_d%d" % (w, j, flen, dlen), w, 2, j, flen, dlen=dlen, oracle=ro, r0=9))
    # receiver: a lost ACK must be repaired: the sender retransmits the acknowledged block(s); after the
    # duplicate of the last acknowledged block and a following time-out the ACK has been sent again
    # (either reaction - re-ACK on the duplicate or on the time-out - is accepted)
    for w, flen, rel in ([(1, 2, 0), (2, 4, 0), (2, 4, -1)] if tier == "quick" else
                         [(1, 2, 0), (1, 0, 0), (2, 4, 0), (2, 4, -1), (3, 6, 0), (3, 6, -2), (3, 6, -1)]):
        I.append(rcv("c04_reack_w%d_f%d_r%d" % (w, flen, -rel), w, 2, 0, flen, oracle=ro | omask("REACK"),
                     events=[(K_DATA, rel, 2, 0), (K_TIMEOUT, None, 0, 6)], tmo=5, b0=(9, 9)))
    # the re-sent ACK may be lost as well: two stall cycles (duplicate, time-out, duplicate, time-out)
    # (two DATA events in one run: beyond the quick budget - thorough tier only, reported "not explored" when it does not finish)
    for w, flen in ([] if tier == "quick" else [(1, 2)]):
        I.append(rcv("c04_reack_twice_w%d_f%d" % (w, flen), w, 2, 0, flen, oracle=ro | omask("REACK", "REACK2"), tmo=5, b0=(9, 9),
                     events=[(K_DATA, 0, 2, 0), (K_TIMEOUT, None, 0, 6), (K_DATA, 0, 2, 0), (K_TIMEOUT, None, 0, 6)],
                     timeout=1500, mem_kb=20 * 1024 * 1024))  # measured: does not finish in 2400 s / 20 GB either
    I += c18.remove_equiv("quick")
    return Check("C04", tier, I, seed, functions=WORKER_FUNCS_SND + WORKER_FUNCS_RCV, assumptions=WORKER_ASSUMPTIONS + [
        "bounded liveness is decided as local progress obligations from every injected state (one fault event each): time-out => retransmission and no give-up before 6 consecutive failures; "
        "stale/duplicate ACK => no abort; out-of-sequence DATA => no abort and nothing stored; lost ACK => re-ACK after the duplicate or the next time-out. "
        "Whole transfers against an executable peer (DESIGN 5.4) were not affordable: any second peer event in one symbolic execution exhausts memory (measured)",
        "the RFC 1350 exception (loss of the very last ACK) is respected: nothing is demanded after the receiver returned",
    ], explanation="one fault event (drop -> time-out, duplicate, reorder, delay, stray packet) from every injected state of sender and receiver; "
                   "progress obligations asserted by the streaming oracle")
