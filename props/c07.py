from driver import Check
from common_worker import *
import c18


def build(tier, seed):
    so = omask("END", "BEYOND", "RETRY")
    ro = omask("END", "RETRY", "STORE")
    I = []
    # (a) any single event from an injected state: ERROR ends at once, final ACK ends with Ok, nothing after
    sshapes = [(1, 0, 1), (1, 0, 2), (2, 1, 3), (2, 0, 3), (3, 2, 5), (3, 1, 4)]
    if tier == "thorough":
        sshapes += [(1, 0, 0), (1, 0, 3), (2, 0, 1), (2, 0, 2), (2, 1, 2), (2, 1, 4), (3, 0, 5), (3, 2, 4), (3, 2, 6), (3, 1, 6)]
    for w, j, flen in sshapes:
        I.append(snd("c07_snd_w%d_j%d_f%d" % (w, j, flen), w, 2, j, flen, oracle=so))
    # (b) reply to the OACK (check_response), from the start: ERROR / wrong ACK / silence end the transfer
    for w, flen in ([(1, 1), (2, 3)] if tier == "quick" else [(1, 0), (1, 1), (1, 3), (2, 3), (3, 5)]):
        I.append(snd("c07_hs_w%d_f%d" % (w, flen), w, 2, 0, flen, oracle=so, hs=True, fs=True, b0=(1, 1)))
    # (c) the peer falls silent: bounded retry (only failed receives; clock advance symbolic)
    for w, j, flen in ([(1, 0, 1), (2, 1, 4)] if tier == "quick" else [(1, 0, 1), (1, 0, 2), (2, 1, 4), (3, 2, 5)]):
        I.append(snd("c07_silence_snd_w%d_j%d_f%d" % (w, j, flen), w, 2, j, flen, oracle=so,
                     events=[(K_TIMEOUT, None, 0, 5)] * 10, tmo=5, unw=12, timeout=900))
    # (c2) five failed receives, a late duplicate ACK (sender) / duplicate block (receiver), then silence: the retry bound must still hold
    for w, j, flen in ([(2, 1, 4)] if tier == "quick" else [(2, 1, 4), (1, 0, 3), (3, 2, 6)]):
        I.append(snd("c07_dupack_silence_snd_w%d_j%d_f%d" % (w, j, flen), w, 2, j, flen, oracle=so, r0=5, tmo=5, b0=(7, 7), unw=8,
                     events=[(K_ACK, -1, 0, 0)] + [(K_TIMEOUT, None, 0, 5)] * 4))
    for w, j in ([(2, 1)] if tier == "quick" else [(2, 1), (1, 0), (3, 2)]):
        I.append(rcv("c07_dupdata_silence_rcv_w%d_j%d" % (w, j), w, 2, j, 2, oracle=ro, r0=5, tmo=5, b0=(7, 7),
                     events=[(K_DATA, 0, 2, 0)] + [(K_TIMEOUT, None, 0, 5)] * 4))
    # (d) states after the end of the file was read (last pre-loaded chunk short): partial-window ACK,
    #     duplicate ACK, full ACK around the end of file
    for w, j, flen in ([(2, 2, 3), (3, 2, 2), (3, 3, 5), (2, 1, 1)] if tier == "quick" else
                       [(2, 2, 3), (2, 2, 2), (3, 2, 2), (3, 2, 3), (3, 3, 5), (3, 3, 4), (2, 1, 1), (2, 1, 0), (3, 1, 0)]):
        I.append(snd("c07_posteof_w%d_j%d_f%d" % (w, j, flen), w, 2, j, flen, oracle=so | omask("CONTENT", "FLOW")))
    # receiver
    rshapes = [(1, 0, 0, 1), (1, 0, 2, 2), (2, 1, 2, 0), (2, 1, 0, 2), (3, 2, 2, 1)]
    if tier == "thorough":
        rshapes += [(1, 0, 0, 0), (1, 0, 0, 2), (2, 0, 2, 1), (2, 0, 0, 0), (3, 0, 0, 1), (3, 1, 2, 2), (3, 2, 0, 0)]
    for w, j, flen, dlen in rshapes:
        I.append(rcv("c07_rcv_w%d_j%d_f%d_d%d" % (w, j, flen, dlen), w, 2, j, flen, dlen=dlen, oracle=ro))
    for w, j in ([(1, 0), (2, 1)] if tier == "quick" else [(1, 0), (2, 1), (3, 2), (3, 0)]):
        I.append(rcv("c07_silence_rcv_w%d_j%d" % (w, j), w, 2, j, 2, oracle=ro, events=[(K_TIMEOUT, None, 0, 5)] * 10,
                     tmo=5, unw=12, timeout=900))
    I += c18.remove_equiv("quick")
    return Check("C07", tier, I, seed, functions=WORKER_FUNCS_SND + WORKER_FUNCS_RCV, assumptions=WORKER_ASSUMPTIONS + [
        "retry bound: giving up before 6 consecutive failed receives is a violation, still receiving after 8 is a violation (the property says 'bounded', C04 names 6)",
    ], explanation="transfer functions must return Ok exactly when the final block was acknowledged/received, Err at once on ERROR "
                   "(also as the reply to the OACK), emit nothing afterwards, never a block beyond the final one, and give up after a bounded number of failed receives.")
