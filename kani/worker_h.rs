// Harness templates for src/worker.rs (child module `verif_harness` of `crate::worker`:
// `send_file`, `receive_file`, `check_response` are reachable without widening visibility).
//
// The peer and the network are a mock `Socket` whose `recv` returns a script of events and
// whose `send` runs a *streaming oracle* written from RFC 1350 / 7440 and the property
// texts (not from worker.rs).  Event contents (ACK / DATA numbers, payload bytes, clock
// advance) are symbolic; the run starts from an injected state (start block, window
// pre-load, file offset), see DESIGN 4.5.
#![allow(dead_code, unused_imports, unused_macros, static_mut_refs, unused_variables, unused_mut)]
use super::*;
use crate::verif::{self, CAP, FS};
use std::time::Duration;

pub const GMAX: usize = 10;
pub const MAXEV: usize = 14;

// ---------------------------------------------------------------------------------------------
// oracle selection: one bit per group of assertions, concrete per harness
pub const O_CONTENT: u32 = 1 << 0; // C01: DATA(k) carries exactly its slice; short block only at the end
pub const O_BEYOND: u32 = 1 << 1; // C01/C07: never a block beyond the final block
pub const O_FLOW: u32 = 1 << 2; // C08: <= W outstanding, consecutive from the front, cumulative ACK
pub const O_TRIGGER: u32 = 1 << 3; // C08: transmission only after in-window ACK or elapsed timeout
pub const O_NOABORT: u32 = 1 << 4; // C08: duplicate / stale ACK does not abort
pub const O_PROGRESS: u32 = 1 << 5; // C04/C08: required (re)transmission / required ACK happens
pub const O_END: u32 = 1 << 6; // C07: ends on final ACK / ERROR / bounded retry, silent afterwards
pub const O_REPEAT: u32 = 1 << 7; // C16: every data-phase datagram exactly N+1 times back to back
pub const O_STORE: u32 = 1 << 8; // C02: ACK(k) => k received in sequence and all bytes in the file
pub const O_ACKCAD: u32 = 1 << 9; // C08 (receiver): ACK at the latest after W in-order blocks and on the final one
pub const O_FULLWIN: u32 = 1 << 10; // C09: a burst carries the whole negotiated window
pub const O_RETRY: u32 = 1 << 11; // C04/C07: no give-up before 6 consecutive failed receives, none after RETRY_CAP
pub const O_REACK: u32 = 1 << 12; // C04 (receiver): a lost ACK is repaired: after a duplicate of the last acknowledged block and a time-out the ACK has been re-sent
pub const O_REACK2: u32 = 1 << 13; // C04 (receiver): two stall cycles (duplicate, time-out, duplicate, time-out) => the ACK was re-sent in each
pub const RETRY_BUDGET: usize = 6;
pub const RETRY_CAP: usize = 8;

#[derive(Clone, Copy)]
pub struct Ev {
    /// 0 = recv fails (time-out or undecodable datagram), 1 = ACK, 2 = DATA, 3 = ERROR, 4 = OACK
    pub kind: u8,
    pub num: u16,
    pub len: usize,
    pub data: [u8; 3],
    pub dt: Duration,
}

pub const EV0: Ev = Ev { kind: 0, num: 0, len: 0, data: [0; 3], dt: Duration::ZERO };

#[derive(Clone, Copy, PartialEq)]
pub enum Need { Must, May, MustNot }

#[derive(Clone, Copy, PartialEq)]
pub enum Ret { MustOk, MustErr, Any, MustContinue }

pub struct Mock {
    pub oracle: u32,
    pub evs: [Ev; MAXEV],
    pub nev: usize,
    pub next: usize,
    pub sender: bool,
    // shape
    pub w: usize,
    pub blk: usize,
    pub rep: usize,
    pub timeout: Duration,
    pub b0: u16,
    // ---- sender ghost state ----
    pub fdata: [u8; CAP],
    pub flen: usize,
    /// index (relative to the injected window front) of the oldest unacknowledged block
    pub front: usize,
    pub next_in_burst: usize,
    pub cur_rel: usize,
    pub rep_left: usize,
    pub burst: Need,
    pub burst_started: bool,
    pub last_tx: Duration,
    pub handshake: bool,
    // ---- receiver ghost state ----
    pub g: [u8; CAP],
    pub glen: usize,
    /// last block accepted in sequence
    pub last_inorder: u16,
    pub unacked: usize,
    pub ack: Need,
    pub ack_count: usize,
    pub final_seen: bool,
    pub reacks: usize,
    /// the model file may refuse writes: a failed write legitimately ends the upload with Err
    pub write_may_fail: bool,
    pub ended_by_error: bool,
    pub final_acked: bool,
    // ---- both ----
    pub ret: Ret,
    pub ended: bool,
    pub sends_total: usize,
    pub recvs_total: usize,
    /// consecutive receive attempts that failed (time-out / undecodable) since the last progress
    pub fails: usize,
    /// same, also counting stray well-formed packets the implementation may treat as failures
    pub fails_any: usize,
    pub saw_short: bool,
    pub saw_refill: bool,
    pub saw_ignored: bool,
}

pub static mut M: Mock = Mock {
    oracle: 0, evs: [EV0; MAXEV], nev: 0, next: 0, sender: true, w: 1, blk: 2, rep: 1,
    timeout: Duration::from_secs(5), b0: 1, fdata: [0; CAP], flen: 0, front: 0, next_in_burst: 0,
    cur_rel: 0, rep_left: 0, burst: Need::Must, burst_started: false, last_tx: Duration::ZERO,
    handshake: false, g: [0; CAP], glen: 0, last_inorder: 0, unacked: 0, ack: Need::MustNot,
    ack_count: 0, final_seen: false, reacks: 0, write_may_fail: false, ended_by_error: false, final_acked: false, ret: Ret::MustContinue, ended: false, sends_total: 0,
    recvs_total: 0, fails: 0, fails_any: 0, saw_short: false, saw_refill: false, saw_ignored: false,
};

#[derive(Debug)]
pub struct MockErr;
impl std::fmt::Display for MockErr {
    fn fmt(&self, _f: &mut std::fmt::Formatter<'_>) -> std::fmt::Result { Ok(()) }
}
impl Error for MockErr {}

pub struct MockSocket;

fn on(bit: u32) -> bool { unsafe { M.oracle & bit != 0 } }

/// End of the event script: stop exploring this path (Kani) / end the native replay run.
fn cut() -> ! {
    kani::cover!(true, "witness: event script consumed, cut reached");
    if cfg!(feature = "verif_replay") {
        panic!("VERIF-CUT");
    }
    kani::assume(false);
    loop {}
}

fn last_block_idx() -> usize { unsafe { M.flen / M.blk } }

fn small_payload(len: usize, d: [u8; 3]) -> Vec<u8> {
    match len {
        0 => vec![],
        1 => vec![d[0]],
        2 => vec![d[0], d[1]],
        _ => vec![d[0], d[1], d[2]],
    }
}

// ---------------------------------------------------------------------------------------------
// sender-side oracle
fn snd_on_send(p: &Packet) {
    unsafe {
        M.sends_total += 1;
        if on(O_END) { assert!(!M.ended, "ORACLE end: datagram emitted after the transfer ended"); }
        match p {
            Packet::Data { block_num, data } => {
                if M.handshake {
                    if on(O_END) { assert!(false, "ORACLE end: DATA emitted before the OACK was answered"); }
                    return;
                }
                if on(O_TRIGGER) {
                    assert!(M.burst != Need::MustNot,
                        "ORACLE trigger: DATA transmitted although no timeout elapsed and no in-window ACK arrived");
                }
                let rel = block_num.wrapping_sub(M.b0) as usize;
                if M.rep_left > 0 {
                    if on(O_REPEAT) { assert!(rel == M.cur_rel, "ORACLE repeat: copies of a DATA block are not back to back"); }
                    if rel == M.cur_rel { M.rep_left -= 1; }
                } else {
                    if on(O_REPEAT) && M.burst_started {
                        assert!(rel != M.cur_rel || M.rep == 0, "ORACLE repeat: DATA block emitted more than N+1 times");
                    }
                    if on(O_FLOW) {
                        assert!(rel == M.next_in_burst,
                            "ORACLE flow: burst does not run consecutively from the block after the last acknowledged one");
                        assert!(rel < M.front + M.w, "ORACLE flow: more than windowsize blocks outstanding");
                    }
                    M.cur_rel = rel;
                    M.next_in_burst = rel + 1;
                    M.rep_left = M.rep - 1;
                }
                M.burst_started = true;
                if on(O_BEYOND) {
                    assert!(rel <= last_block_idx(), "ORACLE beyond: DATA block beyond the final block of the file");
                }
                if on(O_CONTENT) && rel <= last_block_idx() {
                    let off = rel * M.blk;
                    let exp = if M.flen - off < M.blk { M.flen - off } else { M.blk };
                    assert!(data.len() == exp, "ORACLE content: DATA length is not min(blksize, remaining bytes)");
                    let mut k = 0;
                    while k < M.blk {
                        if k < exp && k < data.len() {
                            assert!(data[k] == M.fdata[off + k], "ORACLE content: DATA bytes differ from the file slice of that block number");
                        }
                        k += 1;
                    }
                    if exp < M.blk { M.saw_short = true; }
                }
                if M.front > 0 { M.saw_refill = true; }
                kani::cover!(M.front > 0, "witness: DATA sent after the window advanced");
            }
            Packet::Error { .. } => {
                // the server aborting the transfer: nothing may follow
                M.ended = true;
                M.ret = Ret::MustErr;
            }
            _ => {
                if on(O_FLOW) { assert!(false, "ORACLE flow: sender emitted a datagram that is neither DATA nor ERROR"); }
            }
        }
    }
}

fn snd_before_recv() {
    unsafe {
        if on(O_END) { assert!(!M.ended, "ORACLE end: receive attempted after the transfer ended"); }
        if on(O_END) { assert!(M.ret != Ret::MustOk && M.ret != Ret::MustErr, "ORACLE end: transfer goes on after it had to end"); }
        if M.handshake { return; }
        if M.burst_started {
            if on(O_REPEAT) { assert!(M.rep_left == 0, "ORACLE repeat: DATA block emitted fewer than N+1 times"); }
            if on(O_FULLWIN) {
                let total = last_block_idx() + 1;
                let end = if M.front + M.w < total { M.front + M.w } else { total };
                assert!(M.next_in_burst == end, "ORACLE fullwin: burst shorter than the negotiated window");
            }
            M.last_tx = verif::CLOCK;
        } else if on(O_PROGRESS) {
            assert!(M.burst != Need::Must, "ORACLE progress: no (re)transmission although an in-window ACK arrived or the timeout elapsed");
        }
    }
}

fn snd_after_event(e: &Ev) {
    unsafe {
        M.burst_started = false;
        M.rep_left = 0;
        let total = last_block_idx() + 1;
        let n = if M.front + M.w < total { M.front + M.w - M.front } else { total - M.front };
        let since = verif::CLOCK.checked_sub(M.last_tx).unwrap_or_default();
        let elapsed = since >= M.timeout;
        // a receive attempt that failed *after* the timeout ran out must be followed by a
        // retransmission; exactly at the timeout either reading of "elapsed" is accepted
        let overdue = since > M.timeout;
        if M.handshake {
            // reply to the OACK (check_response)
            M.handshake = false;
            match e.kind {
                1 if e.num == 0 => { M.burst = Need::Must; M.ret = Ret::MustContinue; }
                1 => { M.burst = Need::MustNot; M.ret = Ret::MustErr; }
                3 | 0 => { M.burst = Need::MustNot; M.ret = Ret::MustErr; M.ended = true; }
                _ => { M.burst = Need::May; M.ret = Ret::Any; }
            }
            M.next_in_burst = M.front;
            return;
        }
        match e.kind {
            1 => {
                let d = e.num.wrapping_sub(M.b0.wrapping_add(M.front as u16)) as usize;
                if d < n {
                    // acknowledges d+1 outstanding blocks (cumulative)
                    M.fails = 0;
                    M.fails_any = 0;
                    M.front += d + 1;
                    if M.front >= total {
                        M.ret = Ret::MustOk;
                        M.burst = Need::MustNot;
                        M.ended = true;
                    } else {
                        M.ret = Ret::MustContinue;
                        M.burst = Need::Must;
                    }
                } else if d >= 0x8000 {
                    // duplicate or stale: behind the window
                    M.saw_ignored = true;
                    M.ret = if on(O_NOABORT) { Ret::MustContinue } else { Ret::Any };
                    M.burst = if elapsed { Need::May } else { Need::MustNot };
                } else {
                    // ahead of everything sent: bogus peer, nothing demanded (DESIGN 2)
                    M.ret = Ret::Any;
                    M.burst = if elapsed { Need::May } else { Need::MustNot };
                }
            }
            3 => { M.ret = Ret::MustErr; M.burst = Need::MustNot; M.ended = true; }
            0 => {
                M.fails += 1;
                M.fails_any += 1;
                M.ret = if on(O_RETRY) && M.fails_any < RETRY_BUDGET { Ret::MustContinue } else { Ret::Any };
                M.burst = if overdue { Need::Must } else if elapsed { Need::May } else { Need::MustNot };
            }
            _ => {
                // stray DATA / OACK: ignored or counted as a failed attempt
                M.fails_any += 1;
                M.ret = if on(O_RETRY) && M.fails_any < RETRY_BUDGET { Ret::MustContinue } else { Ret::Any };
                M.burst = if elapsed { Need::May } else { Need::MustNot };
            }
        }
        M.next_in_burst = M.front;
    }
}

// ---------------------------------------------------------------------------------------------
// receiver-side oracle
fn file_equals_ghost() -> bool {
    unsafe {
        if FS.len != M.glen { return false; }
        let mut x = 0;
        let mut same = true;
        while x < GMAX {
            if x < M.glen && FS.data[x] != M.g[x] { same = false; }
            x += 1;
        }
        same
    }
}

fn file_prefix_of_ghost() -> bool {
    unsafe {
        if FS.len > M.glen { return false; }
        let mut x = 0;
        let mut same = true;
        while x < GMAX {
            if x < FS.len && FS.data[x] != M.g[x] { same = false; }
            x += 1;
        }
        same
    }
}

fn rcv_on_send(p: &Packet) {
    unsafe {
        M.sends_total += 1;
        if on(O_END) { assert!(!M.ended, "ORACLE end: datagram emitted after the transfer ended"); }
        match p {
            Packet::Ack(k) => {
                if on(O_STORE) {
                    // ACK(k) must name a block received in sequence: the last one, or (a repeated / stale
                    // acknowledgement, which the property allows) one behind it in the wrapping order.  The
                    // history before the injected state is unknown, so "behind" is the half range.
                    let behind = M.last_inorder.wrapping_sub(*k) as usize;
                    assert!(behind < 0x8000, "ORACLE store: ACK for a block that is not the last one received in sequence");
                    if behind == 0 {
                        assert!(file_equals_ghost(), "ORACLE store: ACK emitted while acknowledged bytes are not (exactly) in the file");
                    } else {
                        // every byte of blocks 1..k in the file: the blocks after k hold at most blksize bytes each
                        assert!(file_prefix_of_ghost() && FS.len + behind * M.blk >= M.glen,
                            "ORACLE store: ACK emitted while acknowledged bytes are not (exactly) in the file");
                    }
                }
                if on(O_ACKCAD) {
                    assert!(M.ack != Need::MustNot, "ORACLE ackcad: ACK emitted where none is allowed");
                }
                M.ack_count += 1;
                if *k == M.last_inorder { M.reacks += 1; }
                if M.final_seen && *k == M.last_inorder { M.final_acked = true; }
                kani::cover!(M.ack_count == 1 && M.recvs_total > 0, "witness: ACK sent after an arrival");
                if on(O_REPEAT) { assert!(M.ack_count <= M.rep, "ORACLE repeat: ACK emitted more than N+1 times"); }
                M.unacked = 0;
            }
            Packet::Error { .. } => { M.ended = true; M.ret = Ret::MustErr; }
            _ => {
                if on(O_STORE) { assert!(false, "ORACLE store: receiver emitted a datagram that is neither ACK nor ERROR"); }
            }
        }
    }
}

fn rcv_before_recv() {
    unsafe {
        if on(O_END) { assert!(!M.ended, "ORACLE end: receive attempted after the transfer ended"); }
        if on(O_END) { assert!(M.ret != Ret::MustOk && M.ret != Ret::MustErr, "ORACLE end: transfer goes on after it had to end"); }
        rcv_close_phase();
        if on(O_REACK) && M.next >= M.nev {
            assert!(M.reacks > 0, "ORACLE reack: lost ACK never repaired (no re-ACK after a duplicate of the last acknowledged block nor after the following time-out)");
        }
        if on(O_REACK2) && M.next >= M.nev {
            assert!(M.reacks >= 2 * M.rep, "ORACLE reack: a second loss of the same ACK is not repaired (one re-ACK per stall, then silence)");
        }
    }
}

fn rcv_close_phase() {
    unsafe {
        if M.ack_count > 0 {
            if on(O_REPEAT) { assert!(M.ack_count == M.rep, "ORACLE repeat: ACK emitted fewer than N+1 times"); }
        } else if M.ack == Need::Must {
            if on(O_ACKCAD) { assert!(false, "ORACLE ackcad: no ACK after windowsize in-order blocks / after the final block"); }
            if on(O_PROGRESS) { assert!(false, "ORACLE progress: required ACK missing"); }
        }
        if on(O_STORE) { assert!(file_prefix_of_ghost(), "ORACLE store: file is not a prefix of the blocks received in sequence"); }
    }
}

fn rcv_after_event(e: &Ev) {
    unsafe {
        M.ack_count = 0;
        match e.kind {
            2 => {
                if e.num == M.last_inorder.wrapping_add(1) {
                    // in sequence: accepted exactly once
                    let mut k = 0;
                    while k < 3 {
                        if k < e.len && M.glen < CAP { M.g[M.glen] = e.data[k]; M.glen += 1; }
                        k += 1;
                    }
                    M.last_inorder = e.num;
                    M.unacked += 1;
                    M.fails = 0;
                    M.fails_any = 0;
                    if e.len < M.blk {
                        M.final_seen = true;
                        M.ack = Need::Must;
                        M.ret = Ret::MustOk;
                    } else if M.unacked >= M.w {
                        M.ack = Need::Must;
                        M.ret = Ret::MustContinue;
                    } else {
                        M.ack = Need::May;
                        M.ret = Ret::MustContinue;
                    }
                } else {
                    // duplicate / out of order: must not change what is stored; re-ACK allowed;
                    // a duplicated or reordered DATA never fails the transfer
                    M.saw_ignored = true;
                    M.ack = Need::May;
                    M.ret = if on(O_RETRY) { Ret::MustContinue } else { Ret::Any };
                }
            }
            3 => { M.ret = Ret::MustErr; M.ack = Need::MustNot; M.ended = true; }
            0 => {
                M.fails += 1;
                M.fails_any += 1;
                M.ret = if on(O_RETRY) && M.fails_any < RETRY_BUDGET { Ret::MustContinue } else { Ret::Any };
                M.ack = Need::May;
            }
            _ => {
                M.fails_any += 1;
                M.ret = if on(O_RETRY) && M.fails_any < RETRY_BUDGET { Ret::MustContinue } else { Ret::Any };
                M.ack = Need::May;
            }
        }
    }
}

// ---------------------------------------------------------------------------------------------
impl Socket for MockSocket {
    fn send(&self, packet: &Packet) -> Result<(), Box<dyn Error>> {
        unsafe { if M.sender { snd_on_send(packet) } else { rcv_on_send(packet) } }
        Ok(())
    }
    fn send_to(&self, packet: &Packet, _to: &std::net::SocketAddr) -> Result<(), Box<dyn Error>> {
        self.send(packet)
    }
    fn recv_with_size(&self, _size: usize) -> Result<Packet, Box<dyn Error>> {
        unsafe {
            if M.sender { snd_before_recv() } else { rcv_before_recv() }
            if on(O_RETRY) {
                assert!(M.fails <= RETRY_CAP, "ORACLE retry: still receiving after more consecutive time-outs than any retry bound allows");
            }
            if M.next >= M.nev { cut(); }
            M.recvs_total += 1;
            let e = M.evs[M.next];
            M.next += 1;
            verif::advance_clock(e.dt);
            if M.sender { snd_after_event(&e) } else { rcv_after_event(&e) }
            match e.kind {
                1 => Ok(Packet::Ack(e.num)),
                2 => Ok(Packet::Data { block_num: e.num, data: small_payload(e.len, e.data) }),
                3 => Ok(Packet::Error { code: ErrorCode::NotDefined, msg: String::new() }),
                4 => Ok(Packet::Oack(vec![])),
                _ => Err(Box::new(MockErr)),
            }
        }
    }
    fn recv_from_with_size(&self, _size: usize) -> Result<(Packet, std::net::SocketAddr), Box<dyn Error>> {
        Err(Box::new(MockErr))
    }
    fn remote_addr(&self) -> Result<std::net::SocketAddr, Box<dyn Error>> {
        Ok(std::net::SocketAddr::from(([127, 0, 0, 1], 1)))
    }
    fn set_read_timeout(&mut self, _dur: Duration) -> Result<(), Box<dyn Error>> { Ok(()) }
    fn set_write_timeout(&mut self, _dur: Duration) -> Result<(), Box<dyn Error>> { Ok(()) }
}

/// What must be true when the transfer function has returned.
fn at_return(ok: bool) {
    kani::cover!(true, "witness: transfer function returned");
    unsafe {
        if M.sender { snd_before_return() } else { rcv_close_phase() }
        match M.ret {
            Ret::MustOk => { if on(O_END) { assert!(ok, "ORACLE end: transfer reported failure although its final block was acknowledged"); } }
            Ret::MustErr => { if on(O_END) { assert!(!ok, "ORACLE end: transfer reported success after an ERROR / failed handshake"); } }
            Ret::MustContinue => {
                if ok {
                    if on(O_END) { assert!(false, "ORACLE end: transfer reported success before its final block was acknowledged / received"); }
                } else if on(O_NOABORT) || on(O_RETRY) {
                    assert!(false, "ORACLE noabort: transfer aborted where it had to continue (duplicate/stale ACK, or fewer than 6 consecutive failed receives)");
                }
            }
            Ret::Any => {}
        }
    }
}

fn snd_before_return() {
    unsafe {
        if M.burst_started && on(O_REPEAT) { assert!(M.rep_left == 0, "ORACLE repeat: DATA block emitted fewer than N+1 times"); }
    }
}

pub const ANYNUM: i32 = 99999;

/// One scripted event: kind any of the mask `kinds` (bit i = kind i), block number any
/// (`rel == ANYNUM`) or `base + rel` (mod 2^16), DATA payload length `len` (concrete), payload
/// bytes and clock advance symbolic.
pub fn spec_ev(kinds: u8, rel: i32, len: usize, dt: i64, base: u16) -> Ev {
    let mut e = any_ev(kinds, len);
    if rel != ANYNUM {
        e.num = base.wrapping_add(rel as i16 as u16);
    }
    if dt >= 0 {
        // concrete clock advance (scripted runs whose control flow must stay concrete)
        e.dt = Duration::from_secs(dt as u64);
    }
    if kinds.count_ones() == 1 {
        e.kind = kinds.trailing_zeros() as u8;
    }
    e
}

pub fn any_ev(kinds: u8, len: usize) -> Ev {
    // kinds: bit i set = kind i allowed; len: payload length if the event is a DATA (concrete)
    let kind: u8 = kani::any();
    kani::assume(kind < 5 && (kinds >> kind) & 1 == 1);
    let secs: u64 = kani::any();
    let nanos: u32 = kani::any();
    kani::assume(secs <= 600 && nanos < 1_000_000_000);
    Ev { kind, num: kani::any(), len, data: kani::any(), dt: Duration::new(secs, nanos) }
}

pub fn timeout_any() -> Duration {
    let t: u64 = kani::any();
    kani::assume(t >= 1 && t <= 255);
    Duration::from_secs(t)
}

/// every interval the server's option negotiation acknowledges (real parse_options)
pub fn timeout_any_u64() -> Duration {
    match crate::server::verif_harness::acked_timeout_any() {
        Some(d) => d,
        None => { kani::assume(false); Duration::ZERO }
    }
}

pub fn fmt_stub(_args: std::fmt::Arguments<'_>) -> String { String::new() }
pub fn sleep_stub(d: Duration) { verif::advance_clock(d); }

/// Sender harness: `send_file` from an injected pre-EOF state, K symbolic events, then the cut.
/// Concrete per instance: W, blk, pre-load J, tail length FLEN (bytes of the file from the
/// window front on), repeat count REP, K, allowed event kinds, oracle mask, b0 class
/// (B0LO..=B0HI; the full range is 0..=65535).  Symbolic: every file byte, the start block,
/// the negotiated timeout (1..=255 s), and per event kind / number / clock advance.
macro_rules! snd_inject {
    ($name:ident, $w:expr, $blk:expr, $j:expr, $flen:expr, $rep:expr, [$(($km:expr, $rel:expr, $dl:expr, $dt:expr)),*], $tmo:expr, $oracle:expr,
     $b0lo:expr, $b0hi:expr, $hs:expr, $fs:expr, $r0:expr, $unw:expr) => {
        #[kani::proof]
        #[kani::unwind($unw)]
        #[kani::stub(crate::window::Window::remove, crate::window::verif_harness::remove_model)]
        #[kani::stub(std::fmt::format, fmt_stub)]
        #[kani::stub(std::thread::sleep, sleep_stub)]
        fn $name() {
            let fdata: [u8; CAP] = kani::any();
            let b0: u16 = if $b0lo == $b0hi { $b0lo } else { let b: u16 = kani::any(); kani::assume(b >= $b0lo && b <= $b0hi); b };
            let timeout = if $tmo == 0 { timeout_any() } else if $tmo == 99999 { timeout_any_u64() } else { Duration::from_secs($tmo) };
            unsafe {
                FS.exists = true; FS.gen = 1; FS.len = $flen; FS.data = fdata; FS.fail_at = CAP;
                verif::START_BLOCK = if $fs { None } else { Some(b0) };
                verif::PRELOAD_MODE = 1;
                verif::PRELOAD_N = $j;
                // injected retry count (failed receives already counted in the current window): 9 = any of 0..=5
                let r0: u32 = if $r0 == 9 { let r: u32 = kani::any(); kani::assume(r <= 5); r } else { $r0 };
                verif::START_RETRY = if $r0 == 0 { None } else { Some(r0) };
                M.fails = r0 as usize;
                M.fails_any = r0 as usize;
                M.oracle = $oracle; M.sender = true; M.w = $w as usize; M.blk = $blk; M.rep = $rep;
                M.timeout = timeout; M.b0 = if $fs { 1 } else { b0 }; M.fdata = fdata; M.flen = $flen;
                M.front = 0; M.next_in_burst = 0; M.burst = Need::Must; M.handshake = $hs;
                M.last_tx = verif::CLOCK;
                let mut i = 0;
                $( M.evs[i] = spec_ev($km, $rel, $dl, $dt, M.b0); i += 1; )*
                M.nev = i;
                if $hs { M.burst = Need::MustNot; }
            }
            let worker = Worker::new(Box::new(MockSocket), PathBuf::new(), true, $blk, timeout, $w, $rep as u8);
            let r = worker.send_file(File::open("f").unwrap(), $hs);
            let ok = r.is_ok();
            std::mem::forget(r);
            at_return(ok);
        }
    };
}

/// Receiver harness: `receive_file` from an injected state (last in-order block b0, J full blocks
/// buffered but not yet flushed, FLEN bytes already in the file), K symbolic arrivals, then the cut.
macro_rules! rcv_inject {
    ($name:ident, $w:expr, $blk:expr, $j:expr, $flen:expr, $rep:expr, [$(($km:expr, $rel:expr, $dl:expr, $dt:expr)),*], $tmo:expr, $oracle:expr,
     $b0lo:expr, $b0hi:expr, $start:expr, $r0:expr, $unw:expr) => {
        #[kani::proof]
        #[kani::unwind($unw)]
        #[kani::stub(std::fmt::format, fmt_stub)]
        #[kani::stub(std::thread::sleep, sleep_stub)]
        fn $name() {
            let fdata: [u8; CAP] = kani::any();
            let pb: [u8; CAP] = kani::any();
            let b0: u16 = if $b0lo == $b0hi { $b0lo } else { let b: u16 = kani::any(); kani::assume(b >= $b0lo && b <= $b0hi); b };
            let timeout = if $tmo == 0 { timeout_any() } else if $tmo == 99999 { timeout_any_u64() } else { Duration::from_secs($tmo) };
            unsafe {
                FS.exists = true; FS.gen = 1; FS.len = $flen; FS.data = fdata; FS.fail_at = CAP;
                verif::START_BLOCK = if $start { None } else { Some(b0) };
                verif::PRELOAD_MODE = 2;
                verif::PRELOAD_N = $j;
                verif::PRELOAD_CHUNK = $blk;
                verif::PRELOAD_BYTES = pb;
                // injected retry count (failed receives already counted in the current window): 9 = any of 0..=5
                let r0: u32 = if $r0 == 9 { let r: u32 = kani::any(); kani::assume(r <= 5); r } else { $r0 };
                verif::START_RETRY = if $r0 == 0 { None } else { Some(r0) };
                M.fails = r0 as usize;
                M.fails_any = r0 as usize;
                M.oracle = $oracle; M.sender = false; M.w = $w as usize; M.blk = $blk; M.rep = $rep;
                M.timeout = timeout; M.b0 = b0;
                M.last_inorder = if $start { 0 } else { b0 };
                M.unacked = $j;
                M.g = fdata;
                M.glen = $flen;
                let mut i = 0;
                while i < $j * $blk { M.g[$flen + i] = pb[i]; i += 1; }
                M.glen = $flen + $j * $blk;
                M.ack = Need::MustNot; M.ack_count = 0; M.ret = Ret::MustContinue;
                let mut i = 0;
                $( M.evs[i] = spec_ev($km, $rel, $dl, $dt, M.last_inorder); i += 1; )*
                M.nev = i;
            }
            let worker = Worker::new(Box::new(MockSocket), PathBuf::new(), true, $blk, timeout, $w, $rep as u8);
            let r = worker.receive_file(File { pos: $flen, gen: 1 });
            let ok = r.is_ok();
            std::mem::forget(r);
            at_return(ok);
            unsafe {
                if ok && on(O_STORE) {
                    assert!(M.final_seen, "ORACLE store: upload reported complete without a final (short) block");
                    assert!(file_equals_ghost(), "ORACLE store: stored file differs from the in-order blocks received once each");
                }
            }
        }
    };
}

// ---------------------------------------------------------------------------------------------
// C13: Worker::receive (file creation, transfer, cleanup) with the thread body run inline.
pub struct C13 { pub clean: bool, pub checked: bool }
pub static mut C13S: C13 = C13 { clean: true, checked: false };

/// Post-condition of one upload attempt, evaluated when the worker's thread body has finished.
pub fn c13_post() {
    unsafe {
        C13S.checked = true;
        kani::cover!(true, "witness: upload thread body finished");
        // the upload completed iff the final block was acknowledged
        let completed = M.final_acked;
        if completed {
            assert!(FS.exists, "C13 cleanup: completed upload has no file");
            assert!(file_equals_ghost(), "C13 cleanup: completed upload does not hold exactly the bytes sent");
        } else if C13S.clean {
            assert!(!FS.exists, "C13 cleanup: failed upload left its partial file although clean-on-error is in force");
        } else {
            assert!(FS.exists, "C13 cleanup: failed upload was removed although keep-on-error was asked for");
            assert!(file_prefix_of_ghost(), "C13 cleanup: kept partial file is not a prefix of the bytes sent");
        }
    }
}

pub fn spawn_inline<F, T>(f: F) -> std::thread::JoinHandle<T>
where
    F: FnOnce() -> T + Send + 'static,
    T: Send + 'static,
{
    let r = f();
    std::mem::forget(r);
    c13_post();
    kani::assume(false);
    loop {}
}

pub fn print_stub(_args: std::fmt::Arguments<'_>) {}

/// One upload through Worker::receive from an injected state (last in-order block b0, J full
/// blocks buffered), events as in rcv_inject; FAILAT = model-file offset at which writes fail
/// (99 = never; 98 = symbolic); clean-on-error symbolic.
macro_rules! c13_upload {
    ($name:ident, $w:expr, $blk:expr, $j:expr, [$(($km:expr, $rel:expr, $dl:expr, $dt:expr)),*], $tmo:expr, $failat:expr, $r0:expr, $unw:expr) => {
        #[kani::proof]
        #[kani::unwind($unw)]
        #[kani::stub(std::fmt::format, fmt_stub)]
        #[kani::stub(std::thread::sleep, sleep_stub)]
        #[kani::stub(std::thread::spawn, spawn_inline)]
        #[kani::stub(std::io::_print, print_stub)]
        #[kani::stub(std::io::_eprint, print_stub)]
        fn $name() {
            let pb: [u8; CAP] = kani::any();
            let b0: u16 = kani::any();
            let timeout = if $tmo == 0 { timeout_any() } else { Duration::from_secs($tmo) };
            let clean: bool = kani::any();
            let fail_at: usize = if $failat == 98 { let f: usize = kani::any(); kani::assume(f <= 8); f } else if $failat == 99 { CAP } else { $failat };
            unsafe {
                C13S.clean = clean;
                // a file of that name may already exist (earlier upload of the same name / retransmitted WRQ in overwrite mode)
                let pre: bool = kani::any();
                FS.exists = pre; FS.gen = if pre { 1 } else { 0 }; FS.len = if pre { 3 } else { 0 }; FS.fail_at = fail_at;
                verif::START_BLOCK = Some(b0);
                verif::PRELOAD_MODE = 2;
                verif::PRELOAD_N = $j;
                verif::PRELOAD_CHUNK = $blk;
                verif::PRELOAD_BYTES = pb;
                verif::START_RETRY = if $r0 == 0 { None } else { Some($r0) };
                M.fails = $r0 as usize;
                M.fails_any = $r0 as usize;
                // a worker that never gives up never cleans up: the retry bound is part of the cleanup obligation
                M.oracle = O_STORE | O_RETRY; M.sender = false; M.w = $w as usize; M.blk = $blk; M.rep = 1;
                M.timeout = timeout; M.b0 = b0; M.last_inorder = b0; M.unacked = $j;
                let mut i = 0;
                while i < $j * $blk { M.g[i] = pb[i]; i += 1; }
                M.glen = $j * $blk;
                M.ack = Need::MustNot; M.ack_count = 0; M.ret = Ret::MustContinue;
                M.write_may_fail = fail_at < CAP;
                let mut i = 0;
                $( M.evs[i] = spec_ev($km, $rel, $dl, $dt, M.last_inorder); i += 1; )*
                M.nev = i;
            }
            let worker = Worker::new(Box::new(MockSocket), PathBuf::from("f"), clean, $blk, timeout, $w, 1);
            let r = worker.receive();
            // only reached natively (replay): the real thread runs the body, wait for it
            #[cfg(feature = "verif_replay")]
            {
                if let Ok(h) = r { let _ = h.join(); }
                unsafe { if !C13S.checked { c13_post(); } }
            }
            #[cfg(not(feature = "verif_replay"))]
            std::mem::forget(r);
        }
    };
}

// ---------------------------------------------------------------------------------------------
// C13, second sentence: a stale earlier worker must not remove / alter the file that the most
// recently accepted upload of the same name completed.  Sequentially consistent interleaving at
// a blocking point: worker 1 (accepted first, e.g. a WRQ whose ACK 0 was lost) has created the
// file and blocks in its first receive; there the whole upload of worker 2 (retransmitted WRQ,
// overwrite mode) runs; worker 1 then sees only time-outs, gives up and cleans up.
pub struct Stale { pub phase: u8, pub w2_done: bool, pub bytes: [u8; 2], pub len: usize }
pub static mut STALE: Stale = Stale { phase: 0, w2_done: false, bytes: [0; 2], len: 0 };

pub struct StaleSock1;
pub struct StaleSock2;

impl Socket for StaleSock2 {
    fn send(&self, _p: &Packet) -> Result<(), Box<dyn Error>> { Ok(()) }
    fn send_to(&self, _p: &Packet, _to: &std::net::SocketAddr) -> Result<(), Box<dyn Error>> { Ok(()) }
    fn recv_with_size(&self, _size: usize) -> Result<Packet, Box<dyn Error>> {
        unsafe {
            // the client's single (short, final) block
            if STALE.phase == 1 {
                STALE.phase = 2;
                return Ok(Packet::Data { block_num: 1, data: small_payload(STALE.len, [STALE.bytes[0], STALE.bytes[1], 0]) });
            }
        }
        Err(Box::new(MockErr))
    }
    fn recv_from_with_size(&self, _size: usize) -> Result<(Packet, std::net::SocketAddr), Box<dyn Error>> { Err(Box::new(MockErr)) }
    fn remote_addr(&self) -> Result<std::net::SocketAddr, Box<dyn Error>> { Ok(std::net::SocketAddr::from(([127, 0, 0, 1], 2))) }
    fn set_read_timeout(&mut self, _d: Duration) -> Result<(), Box<dyn Error>> { Ok(()) }
    fn set_write_timeout(&mut self, _d: Duration) -> Result<(), Box<dyn Error>> { Ok(()) }
}

fn stale_run_worker2() {
    unsafe {
        STALE.phase = 1;
        // handle_wrq of the retransmitted request: File::create on the existing name, then the transfer
        let w2 = Worker::new(Box::new(StaleSock2), PathBuf::from("f"), true, 2, Duration::from_secs(5), 1, 1);
        let r = match File::create("f") {
            Ok(f) => w2.receive_file(f).is_ok(),
            Err(_) => false,
        };
        STALE.w2_done = r;
        assert!(r, "C13 stale (harness): the newer upload did not complete");
        assert!(FS.exists && FS.len == STALE.len, "C13 stale (harness): newer upload's file not as sent");
    }
}

impl Socket for StaleSock1 {
    fn send(&self, _p: &Packet) -> Result<(), Box<dyn Error>> { Ok(()) }
    fn send_to(&self, _p: &Packet, _to: &std::net::SocketAddr) -> Result<(), Box<dyn Error>> { Ok(()) }
    fn recv_with_size(&self, _size: usize) -> Result<Packet, Box<dyn Error>> {
        unsafe {
            if STALE.phase == 0 { stale_run_worker2(); }
            verif::advance_clock(Duration::from_secs(5));
        }
        Err(Box::new(MockErr))
    }
    fn recv_from_with_size(&self, _size: usize) -> Result<(Packet, std::net::SocketAddr), Box<dyn Error>> { Err(Box::new(MockErr)) }
    fn remote_addr(&self) -> Result<std::net::SocketAddr, Box<dyn Error>> { Ok(std::net::SocketAddr::from(([127, 0, 0, 1], 1))) }
    fn set_read_timeout(&mut self, _d: Duration) -> Result<(), Box<dyn Error>> { Ok(()) }
    fn set_write_timeout(&mut self, _d: Duration) -> Result<(), Box<dyn Error>> { Ok(()) }
}

pub fn stale_post() {
    unsafe {
        C13S.checked = true;
        kani::cover!(STALE.w2_done, "witness: newer upload completed, stale worker finished");
        if STALE.w2_done {
            assert!(FS.exists, "C13 stale: the failure of an earlier (stale) transfer removed the file completed by the most recently accepted upload");
            assert!(FS.len == STALE.len, "C13 stale: the failure of an earlier (stale) transfer altered the completed file");
        }
    }
}

pub fn spawn_inline_stale<F, T>(f: F) -> std::thread::JoinHandle<T>
where
    F: FnOnce() -> T + Send + 'static,
    T: Send + 'static,
{
    let r = f();
    std::mem::forget(r);
    stale_post();
    kani::assume(false);
    loop {}
}

macro_rules! c13_stale {
    ($name:ident, $len:expr, $unw:expr) => {
        #[kani::proof]
        #[kani::unwind($unw)]
        #[kani::stub(std::fmt::format, fmt_stub)]
        #[kani::stub(std::thread::sleep, sleep_stub)]
        #[kani::stub(std::thread::spawn, spawn_inline_stale)]
        #[kani::stub(std::io::_print, print_stub)]
        #[kani::stub(std::io::_eprint, print_stub)]
        fn $name() {
            let clean: bool = kani::any();
            unsafe {
                FS.exists = false; FS.gen = 0; FS.len = 0; FS.fail_at = CAP;
                verif::START_BLOCK = None; verif::PRELOAD_MODE = 0; verif::START_RETRY = None;
                STALE.phase = 0; STALE.w2_done = false; STALE.bytes = kani::any(); STALE.len = $len;
                C13S.clean = clean;
            }
            let w1 = Worker::new(Box::new(StaleSock1), PathBuf::from("f"), clean, 2, Duration::from_secs(5), 1, 1);
            let r = w1.receive();
            #[cfg(feature = "verif_replay")]
            {
                if let Ok(h) = r { let _ = h.join(); }
                unsafe { if !C13S.checked { stale_post(); } }
            }
            #[cfg(not(feature = "verif_replay"))]
            std::mem::forget(r);
        }
    };
}
