// Harness templates for src/config.rs (C17, and the --duplicate-packets clause of C16).
#![allow(dead_code, unused_imports, unused_macros, unused_variables, unused_mut, static_mut_refs)]
use super::*;
use std::net::Ipv6Addr;

pub fn fmt_stub(_args: std::fmt::Arguments<'_>) -> String { String::new() }
/// the directories "/..." exist, everything else does not
pub fn exists_stub(p: &Path) -> bool {
    let b = p.as_os_str().as_encoded_bytes();
    b.len() > 0 && b[0] == b'/'
}
pub fn cwd_stub() -> std::io::Result<PathBuf> { Ok(PathBuf::from("/cwd")) }

pub const NG: usize = 28;
/// The flag-group table: (first argument, value argument).
pub fn group(id: u8) -> (&'static str, Option<&'static str>) {
    match id {
        0 => ("-i", Some("0.0.0.0")),
        1 => ("--ip-address", Some("1.2.3.4")),
        2 => ("-i", Some("::1")),
        3 => ("-i", Some("1.2.3")),
        4 => ("-p", Some("1234")),
        5 => ("--port", Some("7")),
        6 => ("-p", Some("70000")),
        7 => ("-d", Some("/a")),
        8 => ("--directory", Some("/b")),
        9 => ("-d", Some("nodir")),
        10 => ("-rd", Some("/r")),
        11 => ("--receive-directory", Some("/r2")),
        12 => ("-sd", Some("/s")),
        13 => ("--send-directory", Some("/s2")),
        14 => ("-s", None),
        15 => ("--single-port", None),
        16 => ("-r", None),
        17 => ("--read-only", None),
        18 => ("--overwrite", None),
        19 => ("--keep-on-error", None),
        20 => ("--duplicate-packets", Some("3")),
        21 => ("--duplicate-packets", Some("255")),
        22 => ("--duplicate-packets", Some("254")),
        23 => ("-x", None),
        24 => ("--bogus", None),
        25 => ("stray", None),
        26 => ("-rd", Some("nodir")),
        _ => ("--send-directory", Some("rel/dir")),
    }
}

pub struct Args { pub ids: [u8; 4], pub n: usize, pub gi: usize, pub part: u8, pub first: bool, pub missing: u8 }
impl Iterator for Args {
    type Item = String;
    fn next(&mut self) -> Option<String> {
        if self.first { self.first = false; return Some(String::from("tftpd")); }
        if self.gi >= self.n {
            // optional trailing flag that misses its value
            if self.missing != 0 {
                let f = match self.missing { 1 => "-i", 2 => "--port", 3 => "-d", 4 => "-rd", 5 => "--send-directory", _ => "--duplicate-packets" };
                self.missing = 0;
                return Some(String::from(f));
            }
            return None;
        }
        let (a, b) = group(self.ids[self.gi]);
        if self.part == 0 {
            if b.is_none() { self.gi += 1; } else { self.part = 1; }
            Some(String::from(a))
        } else {
            self.part = 0;
            self.gi += 1;
            Some(String::from(b.unwrap()))
        }
    }
}

/// Reference: last occurrence of each flag wins, documented defaults, -rd/-sd fall back to -d.
pub struct RefCfg { pub err: bool, pub ip: u8, pub port: u16, pub dir: u8, pub rd: u8, pub sd: u8, pub single: bool, pub ro: bool,
                    pub dup: u8, pub overwrite: bool, pub clean: bool }

pub fn ref_fold(ids: &[u8; 4], n: usize, missing: u8) -> RefCfg {
    let mut r = RefCfg { err: false, ip: 255, port: 69, dir: 0, rd: 0, sd: 0, single: false, ro: false, dup: 0, overwrite: false, clean: true };
    let mut i = 0;
    while i < 4 {
        if i < n && !r.err {
            match ids[i] {
                0 => r.ip = 0, 1 => r.ip = 1, 2 => r.ip = 2, 3 => r.err = true,
                4 => r.port = 1234, 5 => r.port = 7, 6 => r.err = true,
                7 => r.dir = 1, 8 => r.dir = 2, 9 => r.err = true,
                10 => r.rd = 3, 11 => r.rd = 4, 12 => r.sd = 5, 13 => r.sd = 6,
                14 | 15 => r.single = true, 16 | 17 => r.ro = true, 18 => r.overwrite = true, 19 => r.clean = false,
                20 => r.dup = 3, 21 => r.err = true, 22 => r.dup = 254,
                _ => r.err = true,
            }
        }
        i += 1;
    }
    if missing != 0 { r.err = true; }
    if r.rd == 0 { r.rd = r.dir; }
    if r.sd == 0 { r.sd = r.dir; }
    r
}

pub fn dir_bytes(d: u8) -> &'static [u8] {
    match d { 0 => b"/cwd", 1 => b"/a", 2 => b"/b", 3 => b"/r", 4 => b"/r2", 5 => b"/s", _ => b"/s2" }
}

pub fn path_is(p: &PathBuf, d: u8) -> bool {
    let a = p.as_os_str().as_encoded_bytes();
    let b = dir_bytes(d);
    if a.len() != b.len() { return false; }
    let mut i = 0;
    let mut same = true;
    while i < 4 {
        if i < a.len() && i < b.len() && a[i] != b[i] { same = false; }
        i += 1;
    }
    same
}

pub fn ip_is(a: &IpAddr, ip: u8) -> bool {
    match ip {
        0 => *a == IpAddr::V4(Ipv4Addr::new(0, 0, 0, 0)),
        1 => *a == IpAddr::V4(Ipv4Addr::new(1, 2, 3, 4)),
        2 => *a == IpAddr::V6(Ipv6Addr::new(0, 0, 0, 0, 0, 0, 0, 1)),
        _ => *a == IpAddr::V4(Ipv4Addr::new(127, 0, 0, 1)),
    }
}

pub static mut DG: [u8; 5] = [0; 5];
pub fn numstr(nd: usize) -> String {
    let dg = unsafe { DG };
    let s: Vec<u8> = match nd {
        1 => vec![b'0' + dg[0]],
        2 => vec![b'0' + dg[0], b'0' + dg[1]],
        3 => vec![b'0' + dg[0], b'0' + dg[1], b'0' + dg[2]],
        4 => vec![b'0' + dg[0], b'0' + dg[1], b'0' + dg[2], b'0' + dg[3]],
        _ => vec![b'0' + dg[0], b'0' + dg[1], b'0' + dg[2], b'0' + dg[3], b'0' + dg[4]],
    };
    unsafe { String::from_utf8_unchecked(s) }
}

/// One concrete argument vector (flag groups from the table, in the given order, optional
/// trailing flag without value).  Group number NUMSLOT (if < G) must be a -p / --port /
/// --duplicate-packets group: its value is replaced by ND symbolic decimal digits, so the
/// solver decides acceptance and the stored value for every such number at that position.
macro_rules! c17_vector {
    ($name:ident, [$($id:expr),*], [$($arg:expr),*], $numarg:expr, $missing:expr, $numslot:expr, $nd:expr, $unw:expr) => {
        #[kani::proof]
        #[kani::unwind($unw)]
        #[kani::stub(std::fmt::format, fmt_stub)]
        #[kani::stub(std::path::Path::exists, exists_stub)]
        #[kani::stub(std::env::current_dir, cwd_stub)]
        fn $name() {
            let mut ids = [0u8; 4];
            let mut n = 0;
            $( ids[n] = $id; n += 1; )*
            let dg: [u8; 5] = kani::any();
            let mut val: u32 = 0;
            let mut i = 0;
            while i < $nd { kani::assume(dg[i] <= 9); val = val * 10 + dg[i] as u32; i += 1; }
            // argument strings are literals written out by the driver from the same table; the
            // numeric argument, if any, is `numstr(ND)` = the symbolic digit string.  One vec!
            // literal: pushing one by one reallocates and CBMC loses the constants (> 600 s).
            unsafe { DG = dg; }
            let args: Vec<String> = vec![String::from("tftpd"), $($arg),*];
            let mut r = ref_fold(&ids, n, $missing);
            // the symbolic number overrides what the table entry says, unless a later group of the same flag follows
            if $numslot < 4 && $numslot < n {
                let is_port = ids[$numslot] >= 4 && ids[$numslot] <= 6;
                // recompute: fold with the numeric slot taken as valid, then apply its real meaning
                let mut ids2 = ids;
                ids2[$numslot] = if is_port { 4 } else { 20 };
                r = ref_fold(&ids2, n, $missing);
                let mut later = false;
                let mut j = $numslot + 1;
                while j < n {
                    if is_port && ids[j] >= 4 && ids[j] <= 6 { later = true; }
                    if !is_port && ids[j] >= 20 && ids[j] <= 22 { later = true; }
                    j += 1;
                }
                // errors before the slot are already in r.err; the slot itself:
                let mut err_before = false;
                { let rb = ref_fold(&ids2, $numslot, 0); err_before = rb.err; }
                if !err_before {
                    if is_port { if val > 65535 { r.err = true; } else if !later { r.port = val as u16; } }
                    else { if val >= 255 { r.err = true; } else if !later { r.dup = val as u8; } }
                }
            }
            let res = Config::new(args.into_iter());
            match &res {
                Err(_) => assert!(r.err, "C17 error: valid argument vector rejected"),
                Ok(c) => {
                    assert!(!r.err, "C17 error: unknown flag / missing value / bad address or port / missing directory / duplicate-packets >= 255 accepted");
                    assert!(ip_is(&c.ip_address, r.ip), "C17 value: ip address is not the last given one / the default 127.0.0.1");
                    assert!(c.port == r.port, "C17 value: port is not the last given one / the default 69");
                    assert!(path_is(&c.directory, r.dir), "C17 value: directory is not the last given one / the current directory");
                    assert!(path_is(&c.receive_directory, r.rd), "C17 value: receive directory must be the last -rd, else fall back to -d");
                    assert!(path_is(&c.send_directory, r.sd), "C17 value: send directory must be the last -sd, else fall back to -d");
                    assert!(c.single_port == r.single && c.read_only == r.ro && c.overwrite == r.overwrite && c.clean_on_error == r.clean,
                            "C17 value: boolean switches differ from flags given / documented defaults");
                    assert!(c.duplicate_packets == r.dup, "C17 value: duplicate-packets is not the last given one / 0");
                }
            }
            kani::cover!(true, "witness: Config::new returned");
            std::mem::forget(res);
        }
    };
}

/// `PREFIX... <flag> <D digits>`: numeric values as symbolic decimal strings.
/// WHICH 0 = --duplicate-packets (accepted iff < 255), 1 = -p (accepted iff <= 65535).
macro_rules! c17_digits {
    ($name:ident, $which:expr, $d:expr, $unw:expr) => {
        #[kani::proof]
        #[kani::unwind($unw)]
        #[kani::stub(std::fmt::format, fmt_stub)]
        #[kani::stub(std::path::Path::exists, exists_stub)]
        #[kani::stub(std::env::current_dir, cwd_stub)]
        fn $name() {
            let dg: [u8; 5] = kani::any();
            let mut val: u32 = 0;
            let mut i = 0;
            while i < $d { kani::assume(dg[i] <= 9); val = val * 10 + dg[i] as u32; i += 1; }
            let s: Vec<u8> = match $d {
                1 => vec![b'0' + dg[0]],
                2 => vec![b'0' + dg[0], b'0' + dg[1]],
                3 => vec![b'0' + dg[0], b'0' + dg[1], b'0' + dg[2]],
                4 => vec![b'0' + dg[0], b'0' + dg[1], b'0' + dg[2], b'0' + dg[3]],
                _ => vec![b'0' + dg[0], b'0' + dg[1], b'0' + dg[2], b'0' + dg[3], b'0' + dg[4]],
            };
            let s = unsafe { String::from_utf8_unchecked(s) };
            let flag = if $which == 0 { "--duplicate-packets" } else { "-p" };
            let args = vec![String::from("tftpd"), String::from(flag), s];
            let res = Config::new(args.into_iter());
            match &res {
                Ok(c) => {
                    if $which == 0 {
                        assert!(val < 255, "C16/C17 flag: --duplicate-packets >= 255 accepted");
                        assert!(c.duplicate_packets as u32 == val, "C16/C17 flag: stored duplicate-packets differs from the value given");
                    } else {
                        assert!(val <= 65535, "C17 flag: port above 65535 accepted");
                        assert!(c.port as u32 == val, "C17 flag: stored port differs from the value given");
                    }
                }
                Err(_) => {
                    if $which == 0 { assert!(val >= 255, "C16/C17 flag: valid --duplicate-packets value rejected"); }
                    else { assert!(val > 65535, "C17 flag: valid port rejected"); }
                }
            }
            kani::cover!(res.is_ok(), "witness: some value accepted");
            kani::cover!(res.is_err(), "witness: some value rejected");
            std::mem::forget(res);
        }
    };
}
