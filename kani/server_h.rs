// Harness templates for src/server.rs (child module of `crate::server`: parse_options,
// accept_request, RequestType, WorkerOptions are reachable).  C09 at function level.
#![allow(dead_code, unused_imports, unused_macros, unused_variables, unused_mut, static_mut_refs)]
use super::*;

pub struct OptSock;
#[derive(Debug)]
pub struct NoErr;
impl std::fmt::Display for NoErr { fn fmt(&self, _f: &mut std::fmt::Formatter<'_>) -> std::fmt::Result { Ok(()) } }
impl Error for NoErr {}

pub struct Sent {
    pub n: usize,
    /// 0 nothing, 1 OACK, 2 ACK, 3 other
    pub kind: u8,
    pub ack: u16,
    pub nopt: usize,
    pub opt: [(u8, usize); 4],
}
pub static mut SENT: Sent = Sent { n: 0, kind: 0, ack: 0, nopt: 0, opt: [(9, 0); 4] };

fn code(o: &OptionType) -> u8 {
    match o { OptionType::BlockSize => 0, OptionType::TransferSize => 1, OptionType::Timeout => 2, OptionType::Windowsize => 3 }
}
fn opt_of(c: u8) -> OptionType {
    match c { 0 => OptionType::BlockSize, 1 => OptionType::TransferSize, 2 => OptionType::Timeout, _ => OptionType::Windowsize }
}

impl Socket for OptSock {
    fn send(&self, packet: &Packet) -> Result<(), Box<dyn Error>> {
        unsafe {
            SENT.n += 1;
            match packet {
                Packet::Oack(o) => {
                    SENT.kind = 1;
                    SENT.nopt = o.len();
                    let mut i = 0;
                    while i < 4 { if i < o.len() { SENT.opt[i] = (code(&o[i].option), o[i].value); } i += 1; }
                }
                Packet::Ack(k) => { SENT.kind = 2; SENT.ack = *k; }
                _ => { SENT.kind = 3; }
            }
        }
        Ok(())
    }
    fn send_to(&self, packet: &Packet, _to: &SocketAddr) -> Result<(), Box<dyn Error>> { self.send(packet) }
    fn recv_with_size(&self, _size: usize) -> Result<Packet, Box<dyn Error>> { Err(Box::new(NoErr)) }
    fn recv_from_with_size(&self, _size: usize) -> Result<(Packet, SocketAddr), Box<dyn Error>> { Err(Box::new(NoErr)) }
    fn remote_addr(&self) -> Result<SocketAddr, Box<dyn Error>> { Err(Box::new(NoErr)) }
    fn set_read_timeout(&mut self, _dur: Duration) -> Result<(), Box<dyn Error>> { Ok(()) }
    fn set_write_timeout(&mut self, _dur: Duration) -> Result<(), Box<dyn Error>> { Ok(()) }
}

/// The retransmission interval the server acknowledges and hands to the worker for a request
/// carrying `timeout=<any usize>` (None: request refused).  Used by the worker-level harness
/// that checks every acknowledged interval is usable.
pub fn acked_timeout_any() -> Option<Duration> {
    let t: usize = kani::any();
    let mut v = vec![TransferOption { option: OptionType::Timeout, value: t }];
    let r = parse_options(&mut v, RequestType::Write);
    std::mem::forget(v);
    match r {
        Ok(wo) => {
            kani::cover!(t as u64 >= (1u64 << 63), "replay seed: an acknowledged timeout of 2^63 s or more");
            Some(wo.timeout)
        }
        Err(_) => None,
    }
}

/// N options (concrete count), each of symbolic type and full-range symbolic value, pairwise
/// distinct types; request = Read(any size) | Write (symbolic).
macro_rules! c09_options {
    ($name:ident, $n:expr, $unw:expr) => {
        #[kani::proof]
        #[kani::unwind($unw)]
        fn $name() {
            let mut types = [9u8; 4];
            let mut vals = [0usize; 4];
            let mut v: Vec<TransferOption> = Vec::new();
            let mut i = 0;
            while i < $n {
                let c: u8 = kani::any();
                kani::assume(c < 4);
                let mut k = 0;
                while k < i { kani::assume(types[k] != c); k += 1; }
                types[i] = c;
                vals[i] = kani::any();
                v.push(TransferOption { option: opt_of(c), value: vals[i] });
                i += 1;
            }
            let read: bool = kani::any();
            let size: u64 = kani::any();
            let res = parse_options(&mut v, if read { RequestType::Read(size) } else { RequestType::Write });
            if let Ok(wo) = &res {
                let mut has = [false; 4];
                let mut i = 0;
                while i < $n {
                    let val = v[i].value;
                    assert!(code(&v[i].option) == types[i], "C09 oack: option list reordered or retyped");
                    has[types[i] as usize] = true;
                    if types[i] == 0 {
                        assert!(val >= 8 && val <= 65464, "C09 range: blksize outside 8..65464 acknowledged");
                        assert!(val <= vals[i], "C09 range: acknowledged blksize exceeds the requested one");
                        assert!(wo.block_size == val, "C09 use: transfer block length differs from the acknowledged blksize");
                    } else if types[i] == 2 {
                        assert!(val >= 1, "C09 range: timeout 0 acknowledged");
                        assert!(val <= vals[i], "C09 range: acknowledged timeout exceeds the requested one");
                        assert!(wo.timeout == Duration::from_secs(val as u64), "C09 use: retransmission interval differs from the acknowledged timeout");
                    } else if types[i] == 3 {
                        assert!(val >= 1 && val <= 65535, "C09 range: windowsize 0 or > 65535 acknowledged");
                        assert!(val <= vals[i], "C09 range: acknowledged windowsize exceeds the requested one");
                        assert!(wo.window_size as usize == val, "C09 use: blocks per window differ from the acknowledged windowsize");
                    } else {
                        if read {
                            assert!(val as u64 == size, "C09 tsize: read request must be answered with the file's true size");
                        } else {
                            assert!(val == vals[i], "C09 tsize: write request must echo the client's tsize");
                        }
                    }
                    i += 1;
                }
                if !has[0] { assert!(wo.block_size == 512, "C09 default: block length is not 512 without blksize"); }
                if !has[2] { assert!(wo.timeout == Duration::from_secs(5), "C09 default: timeout"); }
                if !has[3] { assert!(wo.window_size == 1, "C09 default: not lock-step without windowsize"); }
                // first reply
                let sock = OptSock;
                let r = accept_request(&sock, &v, if read { RequestType::Read(size) } else { RequestType::Write });
                assert!(r.is_ok(), "C09 reply: accept_request failed on a working socket");
                std::mem::forget(r);
                unsafe {
                    if $n > 0 {
                        assert!(SENT.n == 1 && SENT.kind == 1, "C09 reply: request with options is not answered by exactly one OACK");
                        assert!(SENT.nopt == $n, "C09 reply: OACK does not list exactly the requested options");
                        let mut i = 0;
                        while i < $n {
                            assert!(SENT.opt[i].0 == types[i] && SENT.opt[i].1 == v[i].value, "C09 reply: OACK option differs from the negotiated one");
                            i += 1;
                        }
                    } else if read {
                        assert!(SENT.n == 0, "C09 reply: plain read request must be answered by DATA 1, nothing else first");
                    } else {
                        assert!(SENT.n == 1 && SENT.kind == 2 && SENT.ack == 0, "C09 reply: plain write request must be answered by ACK 0");
                    }
                }
            }
            kani::cover!(res.is_ok(), "witness: some option set is accepted");
            kani::cover!(res.is_err(), "witness: some option set is refused");
            std::mem::forget(res);
            std::mem::forget(v);
        }
    };
}


