// Harness templates for src/window.rs (compiled as a child module `verif_harness` of
// `crate::window`, so private fields are visible).  Instantiated by the driver.
#![allow(dead_code, unused_imports, unused_macros, static_mut_refs)]
use super::*;
use crate::verif::{self, CAP, FS};

pub const MAXW: usize = 4;
pub const MAXC: usize = 3;

/// Cheap equivalent of `Window::remove` used as a Kani stub in worker harnesses
/// (VecDeque::drain is 3.0M of 3.8M SAT variables there).  Its equivalence with the real
/// `remove` is itself a harness of C18 (`c18_remove_equiv_*`), run by every check that
/// uses the stub.
pub fn remove_model(w: &mut Window, amount: u16) -> Result<(), &'static str> {
    if amount > w.elements.len() as u16 {
        return Err("amount cannot be larger than length of window");
    }
    let mut i = 0;
    while i < amount {
        w.elements.pop_front();
        i += 1;
    }
    Ok(())
}

pub fn set_file(len: usize, bytes: [u8; CAP]) {
    unsafe {
        FS.exists = true;
        FS.gen = 1;
        FS.len = len;
        FS.data = bytes;
        FS.fail_at = CAP;
    }
}

pub fn small_vec(l: usize, b: [u8; MAXC]) -> Vec<u8> {
    match l {
        0 => vec![],
        1 => vec![b[0]],
        2 => vec![b[0], b[1]],
        _ => vec![b[0], b[1], b[2]],
    }
}

/// Fixed-array reference queue, written from the property text (not from window.rs).
pub struct RefQ {
    pub q: [[u8; MAXC]; MAXW],
    pub l: [usize; MAXW],
    pub n: usize,
    pub size: usize,
    pub chunk: usize,
    /// next unread file offset
    pub pos: usize,
    /// a short piece has been handed out: the file is exhausted
    pub eof: bool,
}

impl RefQ {
    pub fn new(size: usize, chunk: usize) -> RefQ {
        RefQ { q: [[0; MAXC]; MAXW], l: [0; MAXW], n: 0, size, chunk, pos: 0, eof: false }
    }
    pub fn push(&mut self, l: usize, b: [u8; MAXC]) {
        self.q[self.n] = b;
        self.l[self.n] = l;
        self.n += 1;
    }
    /// successive fills hand out the file's bytes in order, chunk-size pieces, ending with the
    /// first short (possibly empty) piece; never more than `size` pieces buffered.
    pub fn fill(&mut self, flen: usize, fdata: &[u8; CAP]) -> bool {
        while self.n < self.size {
            if self.eof {
                return false;
            }
            let mut b = [0u8; MAXC];
            let mut l = 0;
            while l < self.chunk && self.pos < flen {
                b[l] = fdata[self.pos];
                l += 1;
                self.pos += 1;
            }
            self.push(l, b);
            if l < self.chunk {
                self.eof = true;
                return false;
            }
        }
        !self.eof
    }
    pub fn remove(&mut self, k: usize) -> bool {
        if k > self.n {
            return false;
        }
        let mut i = 0;
        while i + k < self.n {
            self.q[i] = self.q[i + k];
            self.l[i] = self.l[i + k];
            i += 1;
        }
        self.n -= k;
        true
    }
    pub fn add(&mut self, l: usize, b: [u8; MAXC]) -> bool {
        if self.n >= self.size {
            return false;
        }
        self.push(l, b);
        true
    }
}

pub fn same(w: &Window, r: &RefQ) {
    assert!(w.len() as usize == r.n, "C18 length differs from reference queue");
    assert!(w.len() <= w.size, "C18 buffer holds more than its size");
    assert!(w.is_full() == (r.n == r.size), "C18 is_full wrong");
    assert!(w.is_empty() == (r.n == 0), "C18 is_empty wrong");
    let els = w.get_elements();
    let mut i = 0;
    while i < MAXW {
        if i < r.n && i < els.len() {
            let e = &els[i];
            assert!(e.len() == r.l[i], "C18 piece length differs");
            let mut k = 0;
            while k < MAXC {
                if k < r.l[i] && k < e.len() {
                    assert!(e[k] == r.q[i][k], "C18 piece bytes differ");
                }
                k += 1;
            }
        }
        i += 1;
    }
}

pub const FILL: u8 = 0;
pub const REMOVE: u8 = 1; // arg = k, or ANY for a symbolic u16
pub const ADD: u8 = 2; // arg = payload length (bytes symbolic)
pub const EMPTY: u8 = 3;
pub const ANY: u16 = 0xFFFF;

/// One operation script on a window in an injected state.  Concrete: window size, chunk size,
/// pre-load count J, the kinds of the operations and the payload lengths; symbolic: file
/// length (<= FMAX) and every file byte, every payload byte, remove amounts marked ANY.
/// MODE 1 = sender side (file opened for reading, J chunks already read into the window),
/// MODE 2 = receiver side (file holds `flen` flushed bytes, J full pieces buffered).
macro_rules! c18_script {
    ($(#[$attr:meta])* $name:ident, $mode:expr, $w:expr, $c:expr, $j:expr, $fsym:expr, $fmax:expr, $unw:expr, [$(($op:expr, $arg:expr)),*]) => {
        #[kani::proof]
        #[kani::unwind($unw)]
        $(#[$attr])*
        fn $name() {
            let flen: usize = if $fsym { let f: usize = kani::any(); kani::assume(f <= $fmax); f } else { $fmax };
            if $mode == 1 { kani::assume($j * $c <= flen); }
            let fdata: [u8; CAP] = kani::any();
            set_file(flen, fdata);
            let pb: [u8; CAP] = kani::any();
            let mut w = if $mode == 1 {
                Window::new($w, $c, File::open("f").unwrap())
            } else {
                Window::new($w, $c, File { pos: flen, gen: 1 })
            };
            let mut r = RefQ::new($w, $c);
            unsafe {
                verif::PRELOAD_MODE = $mode;
                verif::PRELOAD_N = $j;
                verif::PRELOAD_CHUNK = $c;
                verif::PRELOAD_BYTES = pb;
            }
            w.verif_preload();
            let mut i = 0;
            while i < $j {
                let mut b = [0u8; MAXC];
                let mut k = 0;
                while k < $c {
                    b[k] = if $mode == 1 { fdata[i * $c + k] } else { pb[i * $c + k] };
                    k += 1;
                }
                r.push($c, b);
                i += 1;
            }
            r.pos = $j * $c;
            same(&w, &r);
            let mut g = fdata; // ghost: what the file must hold (receiver side)
            let mut glen = flen;
            let mut wrote = false;
            let mut removed = false;
            $(
                if $op == FILL {
                    let got = w.fill();
                    r.fill(flen, &fdata);
                    assert!(got.is_ok(), "C18 fill failed on a readable file");
                    std::mem::forget(got);
                } else if $op == REMOVE {
                    let k: u16 = if $arg == ANY { kani::any() } else { $arg };
                    let got = w.remove(k).is_ok();
                    let exp = r.remove(k as usize);
                    assert!(got == exp, "C18 remove(k) must fail iff k exceeds the length");
                    if got && k > 0 { removed = true; }
                } else if $op == ADD {
                    let b: [u8; MAXC] = kani::any();
                    let got = w.add(small_vec($arg as usize, b)).is_ok();
                    let exp = r.add($arg as usize, b);
                    assert!(got == exp, "C18 add must fail iff the buffer is full");
                } else {
                    let mut total = 0;
                    let mut i = 0;
                    while i < MAXW { if i < r.n { total += r.l[i]; } i += 1; }
                    if glen + total <= 9 {
                        let got = w.empty();
                        assert!(got.is_ok(), "C18 empty failed on a writable file");
                        std::mem::forget(got);
                        let mut i = 0;
                        while i < MAXW {
                            if i < r.n {
                                let mut k = 0;
                                while k < MAXC {
                                    if k < r.l[i] { g[glen] = r.q[i][k]; glen += 1; }
                                    k += 1;
                                }
                            }
                            i += 1;
                        }
                        if r.n > 0 { wrote = true; }
                        r.n = 0;
                        unsafe {
                            assert!(FS.len == glen, "C18 empty: file length differs from the pieces appended in order");
                            let mut x = 0;
                            while x < 9 {
                                if x < glen { assert!(FS.data[x] == g[x], "C18 empty: file bytes differ"); }
                                x += 1;
                            }
                        }
                    } else {
                        kani::assume(false);
                    }
                }
                same(&w, &r);
            )*
            kani::cover!(true, "witness: script ran to its end");
            kani::cover!(r.eof, "witness: a short final piece was handed out");
            kani::cover!(r.n == $w, "witness: window full at the end");
            kani::cover!(wrote, "witness: empty wrote pieces");
            kani::cover!(removed, "witness: remove discarded pieces");
            std::mem::forget(w);
        }
    };
}

/// Real `Window::remove` (VecDeque::drain) == `remove_model` on the state with J pieces of
/// two symbolic bytes (after ROT push/pop rotations of the ring buffer) and every amount.
macro_rules! c18_remove_equiv {
    ($name:ident, $w:expr, $j:expr, $rot:expr, $unw:expr) => {
        #[kani::proof]
        #[kani::unwind($unw)]
        fn $name() {
            set_file(0, [0; CAP]);
            let mut a = Window::new($w, 2, File { pos: 0, gen: 1 });
            let mut b = Window::new($w, 2, File { pos: 0, gen: 1 });
            let mut i = 0;
            while i < $rot {
                a.elements.push_back(vec![0, 0]);
                b.elements.push_back(vec![0, 0]);
                a.elements.pop_front();
                b.elements.pop_front();
                i += 1;
            }
            let mut i = 0;
            while i < $j {
                let x: [u8; 2] = kani::any();
                a.elements.push_back(vec![x[0], x[1]]);
                b.elements.push_back(vec![x[0], x[1]]);
                i += 1;
            }
            let k: u16 = kani::any();
            let ra = a.remove(k).is_ok();
            let rb = remove_model(&mut b, k).is_ok();
            assert!(ra == rb, "remove_model: result differs from Window::remove");
            assert!(a.elements.len() == b.elements.len(), "remove_model: length differs");
            let mut i = 0;
            while i < $j {
                if i < a.elements.len() && i < b.elements.len() {
                    assert!(a.elements[i].len() == 2 && b.elements[i].len() == 2, "remove_model: piece length differs");
                    assert!(a.elements[i][0] == b.elements[i][0] && a.elements[i][1] == b.elements[i][1], "remove_model: piece differs");
                }
                i += 1;
            }
            kani::cover!(ra && k > 0, "witness: removed something");
            kani::cover!(!ra, "witness: remove refused");
            std::mem::forget(a);
            std::mem::forget(b);
        }
    };
}
