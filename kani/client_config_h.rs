// Harness templates for src/client_config.rs (feature `client`): the client's flag set (C17).
#![allow(dead_code, unused_imports, unused_macros, unused_variables, unused_mut, static_mut_refs)]
use super::*;
use std::net::Ipv6Addr;

pub fn fmt_stub(_args: std::fmt::Arguments<'_>) -> String { String::new() }
pub fn exists_stub(p: &Path) -> bool {
    let b = p.as_os_str().as_encoded_bytes();
    b.len() > 0 && b[0] == b'/'
}

pub static mut DG: [u8; 5] = [0; 5];
pub fn numstr(nd: usize) -> String {
    let dg = unsafe { DG };
    let s: Vec<u8> = match nd {
        1 => vec![b'0' + dg[0]],
        2 => vec![b'0' + dg[0], b'0' + dg[1]],
        3 => vec![b'0' + dg[0], b'0' + dg[1], b'0' + dg[2]],
        4 => vec![b'0' + dg[0], b'0' + dg[1], b'0' + dg[2], b'0' + dg[3]],
        _ => vec![b'0' + dg[0], b'0' + dg[1], b'0' + dg[2], b'0' + dg[3], b'0' + dg[4]],
    };
    unsafe { String::from_utf8_unchecked(s) }
}

/// Reference result, written out by the driver from its own last-occurrence-wins fold over the
/// same flag table (fields given as literals); NUMFIELD: which numeric field takes the symbolic
/// number (0 none, 1 port (u16), 2 blocksize (usize), 3 windowsize (u16), 4 timeout (secs)).
macro_rules! c17_client {
    ($name:ident, [$($arg:expr),*], $err:expr, $ip:expr, $port:expr, $blk:expr, $win:expr, $tmo:expr, $upload:expr, $clean:expr,
     $rd:expr, $file:expr, $numfield:expr, $nd:expr, $unw:expr) => {
        #[kani::proof]
        #[kani::unwind($unw)]
        #[kani::stub(std::fmt::format, fmt_stub)]
        #[kani::stub(std::path::Path::exists, exists_stub)]
        fn $name() {
            let dg: [u8; 5] = kani::any();
            let mut val: u64 = 0;
            let mut i = 0;
            while i < $nd { kani::assume(dg[i] <= 9); val = val * 10 + dg[i] as u64; i += 1; }
            unsafe { DG = dg; }
            let args: Vec<String> = vec![$($arg),*];
            let res = ClientConfig::new(args.into_iter());
            let num_ok = match $numfield { 1 | 3 => val <= 65535, _ => true };
            match &res {
                Err(_) => assert!($err || !num_ok, "C17 client error: valid argument vector rejected"),
                Ok(c) => {
                    assert!(!$err && num_ok, "C17 client error: invalid argument vector accepted");
                    let ip_ok = match $ip {
                        0 => c.remote_ip_address == IpAddr::V4(Ipv4Addr::new(0, 0, 0, 0)),
                        1 => c.remote_ip_address == IpAddr::V4(Ipv4Addr::new(1, 2, 3, 4)),
                        2 => c.remote_ip_address == IpAddr::V6(Ipv6Addr::new(0, 0, 0, 0, 0, 0, 0, 1)),
                        _ => c.remote_ip_address == IpAddr::V4(Ipv4Addr::new(127, 0, 0, 1)),
                    };
                    assert!(ip_ok, "C17 client value: ip address is not the last given one / 127.0.0.1");
                    assert!(c.port == if $numfield == 1 { val as u16 } else { $port }, "C17 client value: port is not the last given one / 69");
                    assert!(c.blocksize == if $numfield == 2 { val as usize } else { $blk }, "C17 client value: blocksize is not the last given one / 512");
                    assert!(c.windowsize == if $numfield == 3 { val as u16 } else { $win }, "C17 client value: windowsize is not the last given one / 1");
                    assert!(c.timeout == Duration::from_secs(if $numfield == 4 { val } else { $tmo }), "C17 client value: timeout is not the last given one / 5 s");
                    assert!((c.mode == Mode::Upload) == $upload, "C17 client value: mode is not the last of -u / -d (default download)");
                    assert!(c.clean_on_error == $clean, "C17 client value: clean-on-error");
                    let rd = c.receive_directory.as_os_str().as_encoded_bytes();
                    let want: &[u8] = $rd;
                    assert!(rd.len() == want.len(), "C17 client value: receive directory is not the last given one / empty");
                    let fp = c.file_path.as_os_str().as_encoded_bytes();
                    let wantf: &[u8] = $file;
                    assert!(fp.len() == wantf.len(), "C17 client value: file is not the last non-flag argument");
                }
            }
            kani::cover!(true, "witness: ClientConfig::new returned");
            std::mem::forget(res);
        }
    };
}
