// Harness templates for src/packet.rs (child module of `crate::packet`: parse_* and serialize_*
// are reachable).  C10 decoder totality / rejection / stability, C11 round-trip and wire layout.
#![allow(dead_code, unused_imports, unused_macros, unused_variables, unused_mut)]
use super::*;

// ---- stubs (listed in the evidence) --------------------------------------------------------
/// ASCII-only model of String::from_utf8: inputs with a byte >= 0x80 are outside the claim of
/// the instances that use it (the *_utf8 instances run the real validator).
pub fn from_utf8_ascii(v: Vec<u8>) -> Result<String, std::string::FromUtf8Error> {
    let mut i = 0;
    while i < v.len() {
        kani::assume(v[i] < 0x80);
        i += 1;
    }
    Ok(unsafe { String::from_utf8_unchecked(v) })
}

/// Model of String::from_utf8 that also admits well-formed 2- and 3-byte sequences (no overlong /
/// surrogate checks: only used on concrete templates that are valid UTF-8); anything else is cut.
pub fn from_utf8_model(v: Vec<u8>) -> Result<String, std::string::FromUtf8Error> {
    let mut i = 0;
    while i < v.len() {
        let b = v[i];
        if b < 0x80 {
            i += 1;
        } else if b >= 0xC2 && b <= 0xDF {
            kani::assume(i + 1 < v.len() && v[i + 1] & 0xC0 == 0x80);
            i += 2;
        } else if b >= 0xE0 && b <= 0xEF {
            kani::assume(i + 2 < v.len() && v[i + 1] & 0xC0 == 0x80 && v[i + 2] & 0xC0 == 0x80);
            i += 3;
        } else {
            kani::assume(false);
        }
    }
    Ok(unsafe { String::from_utf8_unchecked(v) })
}

/// ASCII model of str::to_lowercase.
pub fn to_lowercase_ascii(s: &str) -> String {
    let b = s.as_bytes();
    let mut out: Vec<u8> = Vec::with_capacity(b.len());
    let mut i = 0;
    while i < b.len() {
        let c = b[i];
        out.push(if c >= b'A' && c <= b'Z' { c + 32 } else { c });
        i += 1;
    }
    unsafe { String::from_utf8_unchecked(out) }
}

pub fn fmt_stub(_args: std::fmt::Arguments<'_>) -> String { String::new() }

// ---- reference decoder for requests / OACK, written from RFC 1350 / 2347 -------------------
pub const MAXL: usize = 32;

fn lower(c: u8) -> u8 { if c >= b'A' && c <= b'Z' { c + 32 } else { c } }

/// which recognised option is spelled by b[s..e] (case-insensitive)?  4 = none
fn ref_option(b: &[u8; MAXL], s: usize, e: usize) -> u8 {
    let names: [&[u8]; 4] = [b"blksize", b"tsize", b"timeout", b"windowsize"];
    let mut k = 0;
    while k < 4 {
        let n = names[k];
        if e - s == n.len() {
            let mut same = true;
            let mut i = 0;
            while i < n.len() {
                if lower(b[s + i]) != n[i] { same = false; }
                i += 1;
            }
            if same { return k as u8; }
        }
        k += 1;
    }
    4
}

/// decimal usize as Rust's `str::parse::<usize>` accepts it: optional '+', one or more digits, no overflow
fn ref_number(b: &[u8; MAXL], s: usize, e: usize) -> Option<usize> {
    let mut i = s;
    if i < e && b[i] == b'+' { i += 1; }
    if i >= e { return None; }
    let mut v: usize = 0;
    while i < e {
        let c = b[i];
        if c < b'0' || c > b'9' { return None; }
        v = v.checked_mul(10)?.checked_add((c - b'0') as usize)?;
        i += 1;
    }
    Some(v)
}

fn next_nul(b: &[u8; MAXL], from: usize, len: usize) -> Option<usize> {
    let mut i = from;
    while i < len {
        if b[i] == 0 { return Some(i); }
        i += 1;
    }
    None
}

pub struct RefReq {
    pub ok: bool,
    pub f: (usize, usize),
    pub m: (usize, usize),
    pub nopt: usize,
    pub opt: [(u8, usize); 3],
}

/// Reference parse of `<strings from `start`> [name NUL value NUL]*`; `with_names` = RRQ/WRQ
/// (filename, mode first).
fn ref_parse(b: &[u8; MAXL], len: usize, with_names: bool) -> RefReq {
    let mut r = RefReq { ok: false, f: (0, 0), m: (0, 0), nopt: 0, opt: [(4, 0); 3] };
    let mut pos = 2;
    if with_names {
        let z1 = match next_nul(b, pos, len) { Some(z) => z, None => return r };
        r.f = (pos, z1);
        let z2 = match next_nul(b, z1 + 1, len) { Some(z) => z, None => return r };
        r.m = (z1 + 1, z2);
        pos = z2 + 1;
    }
    while pos < len {
        let z1 = match next_nul(b, pos, len) { Some(z) => z, None => return r };
        let z2 = match next_nul(b, z1 + 1, len) { Some(z) => z, None => return r };
        let o = ref_option(b, pos, z1);
        if o < 4 {
            let v = match ref_number(b, z1 + 1, z2) { Some(v) => v, None => return r };
            if r.nopt < 3 { r.opt[r.nopt] = (o, v); }
            r.nopt += 1;
        }
        pos = z2 + 1;
    }
    r.ok = true;
    r
}

fn opt_code(o: &OptionType) -> u8 {
    match o {
        OptionType::BlockSize => 0,
        OptionType::TransferSize => 1,
        OptionType::Timeout => 2,
        OptionType::Windowsize => 3,
    }
}

fn str_is(s: &String, b: &[u8; MAXL], r: (usize, usize)) -> bool {
    let sb = s.as_bytes();
    if sb.len() != r.1 - r.0 { return false; }
    let mut i = 0;
    let mut same = true;
    while i < MAXL {
        if i < sb.len() && sb[i] != b[r.0 + i] { same = false; }
        i += 1;
    }
    same
}

fn opts_are(o: &Vec<TransferOption>, r: &RefReq) -> bool {
    if o.len() != r.nopt { return false; }
    let mut i = 0;
    let mut same = true;
    while i < 3 {
        if i < o.len() {
            if opt_code(&o[i].option) != r.opt[i].0 || o[i].value != r.opt[i].1 { same = false; }
        }
        i += 1;
    }
    same
}

/// Packet equality without the derived PartialEq on Vec/String (memcmp loops need unwinding)
fn same_packet(a: &Packet, b: &Packet) -> bool {
    match (a, b) {
        (Packet::Ack(x), Packet::Ack(y)) => x == y,
        (Packet::Data { block_num: x, data: d }, Packet::Data { block_num: y, data: e }) => x == y && bytes_eq(d, e),
        (Packet::Error { code: x, msg: d }, Packet::Error { code: y, msg: e }) => (*x as u16) == (*y as u16) && bytes_eq(d.as_bytes(), e.as_bytes()),
        (Packet::Oack(x), Packet::Oack(y)) => topts_eq(x, y),
        (Packet::Rrq { filename: f, mode: m, options: o }, Packet::Rrq { filename: g, mode: n, options: p }) =>
            bytes_eq(f.as_bytes(), g.as_bytes()) && bytes_eq(m.as_bytes(), n.as_bytes()) && topts_eq(o, p),
        (Packet::Wrq { filename: f, mode: m, options: o }, Packet::Wrq { filename: g, mode: n, options: p }) =>
            bytes_eq(f.as_bytes(), g.as_bytes()) && bytes_eq(m.as_bytes(), n.as_bytes()) && topts_eq(o, p),
        _ => false,
    }
}

fn bytes_eq(a: &[u8], b: &[u8]) -> bool {
    if a.len() != b.len() { return false; }
    let mut i = 0;
    let mut same = true;
    while i < MAXL {
        if i < a.len() && i < b.len() && a[i] != b[i] { same = false; }
        i += 1;
    }
    same
}

fn topts_eq(a: &Vec<TransferOption>, b: &Vec<TransferOption>) -> bool {
    if a.len() != b.len() { return false; }
    let mut i = 0;
    let mut same = true;
    while i < 3 {
        if i < a.len() && i < b.len() {
            if opt_code(&a[i].option) != opt_code(&b[i].option) || a[i].value != b[i].value { same = false; }
        }
        i += 1;
    }
    same
}

/// Decode `b[..len]` with the real decoder and compare with the reference decoding / the
/// rejection rules of the property; STABLE: also re-encode what was accepted and decode again.
/// (A macro, expanded in the harness: the buffer must stay a local array there, or the concrete
/// template bytes are no longer constant-folded by the NUL search.)
macro_rules! check_decode {
    ($b:ident, $len:expr, $stable:expr) => {
    let res = Packet::deserialize(&$b[..$len]);
    let op: u16 = if $len >= 2 { (($b[0] as u16) << 8) | $b[1] as u16 } else { 0 };
    if $len < 2 || op == 0 || op > 6 {
        assert!(res.is_err(), "C10 reject: datagram shorter than an opcode / with an unknown opcode was accepted");
    } else if op == 4 {
        match &res {
            Ok(Packet::Ack(n)) => assert!($len >= 4 && *n == (($b[2] as u16) << 8 | $b[3] as u16), "C10 ack: wrong block number / accepted a short ACK"),
            Ok(_) => assert!(false, "C10 ack: decoded to another packet kind"),
            Err(_) => assert!($len < 4, "C10 ack: well-formed ACK rejected"),
        }
    } else if op == 3 {
        match &res {
            Ok(Packet::Data { block_num, data }) => {
                assert!($len >= 4 && *block_num == (($b[2] as u16) << 8 | $b[3] as u16), "C10 data: wrong block number / accepted a short DATA");
                assert!(data.len() == ($len as usize).wrapping_sub(4), "C10 data: payload length");
                let mut i = 0;
                while i < MAXL { if i < data.len() { assert!(data[i] == $b[4 + i], "C10 data: payload bytes"); } i += 1; }
            }
            Ok(_) => assert!(false, "C10 data: decoded to another packet kind"),
            Err(_) => assert!($len < 4, "C10 data: well-formed DATA rejected"),
        }
    } else if op == 5 {
        let code: u16 = if $len >= 4 { ($b[2] as u16) << 8 | $b[3] as u16 } else { 0xFFFF };
        match &res {
            Ok(Packet::Error { code: c, msg }) => {
                assert!($len >= 4 && code <= 7 && (*c as u16) == code, "C10 error: accepted a short ERROR / an unknown error code");
                match next_nul(&$b, 4, $len) {
                    Some(z) => assert!(str_is(msg, &$b, (4, z)) || bytes_eq(msg.as_bytes(), b"(no message)"), "C10 error: message differs from the bytes before the NUL"),
                    None => assert!(bytes_eq(msg.as_bytes(), b"(no message)"), "C10 error: message without NUL (documented leniency) must decode to the placeholder"),
                }
            }
            Ok(_) => assert!(false, "C10 error: decoded to another packet kind"),
            Err(_) => assert!($len < 4 || code > 7, "C10 error: well-formed ERROR rejected"),
        }
    } else {
        // RRQ / WRQ / OACK against the reference decoder
        let r = ref_parse(&$b, $len, op != 6);
        match &res {
            Ok(Packet::Rrq { filename, mode, options }) => {
                assert!(op == 1 && r.ok, "C10 request: malformed RRQ accepted (missing NUL terminator / non-numeric option value)");
                assert!(str_is(filename, &$b, r.f) && str_is(mode, &$b, r.m) && opts_are(options, &r), "C10 request: RRQ fields differ from the reference decoding");
            }
            Ok(Packet::Wrq { filename, mode, options }) => {
                assert!(op == 2 && r.ok, "C10 request: malformed WRQ accepted (missing NUL terminator / non-numeric option value)");
                assert!(str_is(filename, &$b, r.f) && str_is(mode, &$b, r.m) && opts_are(options, &r), "C10 request: WRQ fields differ from the reference decoding");
            }
            Ok(Packet::Oack(options)) => {
                assert!(op == 6 && r.ok, "C10 request: malformed OACK accepted (missing NUL terminator / non-numeric option value)");
                assert!(opts_are(options, &r), "C10 request: OACK options differ from the reference decoding");
            }
            Ok(_) => assert!(false, "C10 request: decoded to another packet kind"),
            Err(_) => assert!(!r.ok, "C10 request: well-formed request / OACK rejected"),
        }
    }
    if $stable {
        if let Ok(p) = &res {
            let bytes = p.serialize();
            assert!(bytes.is_ok(), "C10 stable: accepted packet does not re-encode");
            if let Ok(bytes) = bytes {
                let again = Packet::deserialize(&bytes);
                match &again {
                    Ok(q) => assert!(same_packet(p, q), "C10 stable: decode(encode(decode(x))) differs from decode(x)"),
                    Err(_) => assert!(false, "C10 stable: re-encoded packet is rejected"),
                }
                std::mem::forget(again);
            }
        }
    }
    kani::cover!(true, "witness: decoder returned");
    std::mem::forget(res);
    };
}

/// C10: every datagram of length L whose first two bytes are 0, OPLO, all other bytes symbolic.
macro_rules! c10_decode {
    ($(#[$attr:meta])* $name:ident, $l:expr, $ophi:expr, $oplo:expr, $stable:expr, $unw:expr) => {
        #[kani::proof]
        #[kani::unwind($unw)]
        #[kani::stub(std::fmt::format, fmt_stub)]
        $(#[$attr])*
        fn $name() {
            let mut b: [u8; MAXL] = kani::any();
            if $l > 0 { b[0] = $ophi; }
            if $l > 1 { b[1] = $oplo; }
            check_decode!(b, $l, $stable);
        }
    };
}

/// C10: every datagram of length L with the invalid opcode (OPHI, OPLO) and symbolic tail: rejected.
macro_rules! c10_badop {
    ($name:ident, $l:expr, $ophi:expr, $oplo:expr) => {
        #[kani::proof]
        #[kani::unwind(10)]
        #[kani::stub(std::fmt::format, fmt_stub)]
        fn $name() {
            let mut b: [u8; 8] = kani::any();
            b[0] = $ophi;
            b[1] = $oplo;
            let res = Packet::deserialize(&b[..$l]);
            assert!(res.is_err(), "C10 reject: datagram shorter than an opcode / with an unknown opcode was accepted");
            kani::cover!(true, "witness: decoder returned");
            std::mem::forget(res);
        }
    };
}

/// C10 / C09: a concrete datagram template in which the bytes at the listed positions are
/// symbolic (any value, incl. NUL): decides terminator / digit / letter-case handling at those
/// positions for all 256 values each, against the reference decoder.
macro_rules! c10_template {
    ($(#[$attr:meta])* $name:ident, [$($byte:expr),*], [$($pos:expr),*], $stable:expr, $badutf8:expr, $unw:expr) => {
        #[kani::proof]
        #[kani::unwind($unw)]
        #[kani::stub(std::fmt::format, fmt_stub)]
        $(#[$attr])*
        fn $name() {
            let mut b = [0u8; MAXL];
            let mut len = 0;
            $( b[len] = $byte; len += 1; )*
            $( b[$pos] = kani::any(); )*
            if $badutf8 {
                // a string of this datagram is not valid UTF-8: a Packet cannot hold it, the decoder must refuse
                // (ERROR: the documented placeholder message is accepted instead)
                let res = Packet::deserialize(&b[..len]);
                match &res {
                    Ok(Packet::Error { msg, .. }) => assert!(bytes_eq(msg.as_bytes(), b"(no message)"), "C10 utf8: ERROR with an invalid UTF-8 message decoded to something else than the placeholder"),
                    Ok(_) => assert!(false, "C10 utf8: datagram with an invalid UTF-8 string accepted"),
                    Err(_) => {}
                }
                kani::cover!(true, "witness: decoder returned");
                std::mem::forget(res);
            } else {
                check_decode!(b, len, $stable);
            }
        }
    };
}

// ---- C11 -------------------------------------------------------------------------------------
macro_rules! c11_enums {
    ($name:ident) => {
        #[kani::proof]
        fn $name() {
            let v: u16 = kani::any();
            match Opcode::from_u16(v) {
                Ok(op) => {
                    assert!(v >= 1 && v <= 6, "C11 enum: opcode outside 1..6 accepted");
                    let b = op.as_bytes();
                    assert!(b[0] == (v >> 8) as u8 && b[1] == v as u8, "C11 enum: Opcode as_bytes is not the big-endian inverse of from_u16");
                }
                Err(_) => assert!(v == 0 || v > 6, "C11 enum: opcode 1..6 rejected"),
            }
            let c: u16 = kani::any();
            match ErrorCode::from_u16(c) {
                Ok(e) => {
                    assert!(c <= 7, "C11 enum: error code above 7 accepted");
                    let b = e.as_bytes();
                    assert!(b[0] == 0 && b[1] == c as u8, "C11 enum: ErrorCode as_bytes is not the big-endian inverse of from_u16");
                }
                Err(_) => assert!(c > 7, "C11 enum: error code 0..7 rejected"),
            }
            kani::cover!(v == 6, "witness");
        }
    };
}

/// string of concrete length l; ANYBYTES: every byte any non-NUL ASCII value (layout instances),
/// otherwise concrete bytes (round-trip instances of requests: one symbolic string byte in a
/// request makes the decoder's NUL search symbolic and the run exceed 300 s - measured)
fn sym_string(l: usize, anybytes: bool) -> (String, [u8; 3]) {
    let mut b: [u8; 3] = kani::any();
    if anybytes {
        kani::assume(b[0] != 0 && b[1] != 0 && b[2] != 0 && b[0] < 0x80 && b[1] < 0x80 && b[2] < 0x80);
    } else {
        b = [b'a', b'.', b'Z'];
    }
    let v = match l { 0 => vec![], 1 => vec![b[0]], 2 => vec![b[0], b[1]], _ => vec![b[0], b[1], b[2]] };
    (unsafe { String::from_utf8_unchecked(v) }, b)
}

fn opt_of(code: u8) -> OptionType {
    match code { 0 => OptionType::BlockSize, 1 => OptionType::TransferSize, 2 => OptionType::Timeout, _ => OptionType::Windowsize }
}

fn opt_name(code: u8) -> &'static [u8] {
    match code { 0 => b"blksize", 1 => b"tsize", 2 => b"timeout", _ => b"windowsize" }
}

/// independent RFC 2347 encoder for one option: name NUL decimal NUL; returns new length
fn ref_put_option(out: &mut [u8; 48], mut n: usize, code: u8, value: usize) -> usize {
    let name = opt_name(code);
    let mut i = 0;
    while i < name.len() { out[n] = name[i]; n += 1; i += 1; }
    out[n] = 0; n += 1;
    // decimal, most significant digit first
    let mut digits = [0u8; 20];
    let mut k = 0;
    let mut v = value;
    if v == 0 { digits[0] = b'0'; k = 1; }
    while v > 0 { digits[k] = b'0' + (v % 10) as u8; v /= 10; k += 1; }
    while k > 0 { k -= 1; out[n] = digits[k]; n += 1; }
    out[n] = 0; n += 1;
    n
}

macro_rules! cmp_unrolled {
    ($v:ident, $out:ident, $n:ident, $same:ident, $($i:literal)*) => {
        $( if $i < $n && $i < $v.len() && $v[$i] != $out[$i] { $same = false; } )*
    };
}

/// straight-line comparison (a 48-iteration loop would force a global unwind bound of 49 onto
/// the integer-formatting loops of std)
fn vec_is(v: &Vec<u8>, out: &[u8; 48], n: usize) -> bool {
    if v.len() != n { return false; }
    let mut same = true;
    cmp_unrolled!(v, out, n, same, 0 1 2 3 4 5 6 7 8 9 10 11 12 13 14 15 16 17 18 19 20 21 22 23 24 25 26 27 28 29 30 31 32 33 34 35 36 37 38 39 40 41 42 43 44 45 46 47);
    same
}

/// C11 DATA / ACK / ERROR: any numbers, payload / message of concrete length with symbolic bytes.
macro_rules! c11_simple {
    ($name:ident, $which:expr, $plen:expr, $mlen:expr, $rt:expr, $unw:expr) => {
        #[kani::proof]
        #[kani::unwind($unw)]
        #[kani::stub(std::fmt::format, fmt_stub)]
        #[kani::stub(std::string::String::from_utf8, from_utf8_ascii)]
        fn $name() {
            let which: u8 = $which;
            let num: u16 = kani::any();
            let mut out = [0u8; 48];
            let mut n;
            let p = if which == 0 {
                out[0] = 0; out[1] = 4; out[2] = (num >> 8) as u8; out[3] = num as u8; n = 4;
                Packet::Ack(num)
            } else if which == 1 {
                let d: [u8; 4] = kani::any();
                out[0] = 0; out[1] = 3; out[2] = (num >> 8) as u8; out[3] = num as u8; n = 4;
                let mut i = 0;
                while i < $plen { out[n] = d[i]; n += 1; i += 1; }
                Packet::Data { block_num: num, data: match $plen { 0 => vec![], 1 => vec![d[0]], 2 => vec![d[0], d[1]], 3 => vec![d[0], d[1], d[2]], _ => vec![d[0], d[1], d[2], d[3]] } }
            } else {
                kani::assume(num <= 7);
                let code = ErrorCode::from_u16(num).unwrap();
                let (msg, mb) = sym_string($mlen, !$rt);
                out[0] = 0; out[1] = 5; out[2] = 0; out[3] = num as u8; n = 4;
                let mut i = 0;
                while i < $mlen { out[n] = mb[i]; n += 1; i += 1; }
                out[n] = 0; n += 1;
                Packet::Error { code, msg }
            };
            let bytes = p.serialize().unwrap();
            assert!(vec_is(&bytes, &out, n), "C11 layout: encoding differs from the RFC 1350 layout (big-endian opcode/number, payload, NUL-terminated message)");
            if $rt {
                // decode the reference bytes (== the encoding, just asserted): written at concrete
                // indices, so the NUL positions stay concrete for the decoder
                let back = Packet::deserialize(&out[..n]);
                match &back {
                    Ok(q) => assert!(same_packet(&p, q), "C11 roundtrip: decode(encode(p)) != p"),
                    Err(_) => assert!(false, "C11 roundtrip: own encoding rejected"),
                }
                std::mem::forget(back);
            }
            kani::cover!(true, "witness: encoding compared");
            std::mem::forget(bytes);
            std::mem::forget(p);
        }
    };
}

/// C11 RRQ / WRQ / OACK: filename / mode of concrete lengths FL, ML (symbolic non-NUL ASCII
/// bytes), NOPT options of symbolic type and value in VLO..=VHI.
macro_rules! c11_request {
    ($name:ident, $kind:expr, $fl:expr, $ml:expr, $nopt:expr, $ocode:expr, $vlo:expr, $vhi:expr, $rt:expr, $unw:expr) => {
        #[kani::proof]
        #[kani::unwind($unw)]
        #[kani::stub(std::fmt::format, fmt_stub)]
        #[kani::stub(std::string::String::from_utf8, from_utf8_ascii)]
        #[kani::stub(str::to_lowercase, to_lowercase_ascii)]
        fn $name() {
            let (f, fb) = sym_string($fl, !$rt);
            let (m, mb) = sym_string($ml, !$rt);
            let mut out = [0u8; 48];
            let mut n = 2;
            out[0] = 0;
            out[1] = $kind;
            if $kind != 6 {
                let mut i = 0;
                while i < $fl { out[n] = fb[i]; n += 1; i += 1; }
                out[n] = 0; n += 1;
                let mut i = 0;
                while i < $ml { out[n] = mb[i]; n += 1; i += 1; }
                out[n] = 0; n += 1;
            }
            let mut options: Vec<TransferOption> = Vec::new();
            let mut i = 0;
            while i < $nopt {
                let c: u8 = if $ocode >= 10 { $ocode - 10 } else if $ocode < 4 { ($ocode + i as u8) % 4 } else { let c: u8 = kani::any(); kani::assume(c < 4); c };
                let v: usize = if $vlo == $vhi { $vlo } else { let v: usize = kani::any(); kani::assume(v >= $vlo && v <= $vhi); v };
                options.push(TransferOption { option: opt_of(c), value: v });
                n = ref_put_option(&mut out, n, c, v);
                i += 1;
            }
            let p = if $kind == 1 { Packet::Rrq { filename: f, mode: m, options } }
                else if $kind == 2 { Packet::Wrq { filename: f, mode: m, options } }
                else { Packet::Oack(options) };
            let bytes = p.serialize().unwrap();
            assert!(vec_is(&bytes, &out, n), "C11 layout: request/OACK encoding differs from the RFC 1350/2347 layout (NUL-terminated strings, decimal ASCII option values)");
            if $rt {
                // decode the reference bytes (== the encoding, just asserted): written at concrete
                // indices, so the NUL positions stay concrete for the decoder
                let back = Packet::deserialize(&out[..n]);
                match &back {
                    Ok(q) => assert!(same_packet(&p, q), "C11 roundtrip: decode(encode(p)) != p"),
                    Err(_) => assert!(false, "C11 roundtrip: own encoding rejected"),
                }
                std::mem::forget(back);
            }
            kani::cover!(true, "witness: encoding compared");
            std::mem::forget(bytes);
            std::mem::forget(p);
        }
    };
}


/// C11: a request with a long (concrete) file name: the encoding keeps every byte (no silent cap at the
/// 512-byte request size), ends with the NUL of the last option value, and has the RFC length.
macro_rules! c11_long {
    ($name:ident, $kind:expr, $flen:expr, $unw:expr) => {
        #[kani::proof]
        #[kani::unwind($unw)]
        #[kani::stub(std::fmt::format, fmt_stub)]
        fn $name() {
            let f = unsafe { String::from_utf8_unchecked(vec![b'a'; $flen]) };
            let m = String::from("octet");
            let options = vec![TransferOption { option: OptionType::BlockSize, value: 8 }];
            let p = if $kind == 1 { Packet::Rrq { filename: f, mode: m, options } } else { Packet::Wrq { filename: f, mode: m, options } };
            let bytes = p.serialize().unwrap();
            let want = 2 + $flen + 1 + 5 + 1 + 7 + 1 + 1 + 1;
            assert!(bytes.len() == want, "C11 layout: long request is not encoded in full (length differs from the RFC layout)");
            if bytes.len() == want {
                assert!(bytes[0] == 0 && bytes[1] == $kind, "C11 layout: opcode");
                assert!(bytes[2] == b'a' && bytes[2 + $flen - 1] == b'a' && bytes[2 + $flen] == 0, "C11 layout: file name bytes / terminator");
                assert!(bytes[want - 1] == 0 && bytes[want - 2] == b'8' && bytes[want - 3] == 0, "C11 layout: option value / final NUL");
            }
            kani::cover!(true, "witness: long request encoded");
            std::mem::forget(bytes);
            std::mem::forget(p);
        }
    };
}
